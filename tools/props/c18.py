"""C18 -- certificate hot-reload is all-or-nothing.  Drivers: cert (stateful, real CertReloader in a temp dir),
certlisten (the same behind a real `Server::listen` accept loop on a loopback socket; oracle only).

Test material (ECDSA P-256 key pairs and self-signed certificates) is generated once per run by the
harness command `certgen` (rcgen) with serial, subject and validity chosen HERE, so that the oracle knows
every certificate by construction and never asks the code under test what a file contains.
Case line:  cert <cid> <check_expiry> <nblobs> <hex|C|K>... <op>...   (see harness/src/drv_misc.rs);
the |C|K classification of each blob (what it is as a certificate file / as a key file) is computed
below by a small reference PEM reader and the construction table; the implementation side ignores it,
the model side (extract/drv_misc.ml) is instantiated with it.
"""
import base64, hashlib, os, re, sys
from .base import *

RULE = ("histories over a pool of 4 key pairs (+ renewals with the same key, certificates expired 2 days / 25 h / 23 h / "
        "1 h ago, one expiring in 1 h): two-file updates in both write orders with a reload after every intermediate "
        "disk state (also non-atomic writes through a truncated state), each file replaced alone, truncation prefixes of "
        "both files (quick: 16-byte grid sample + all boundary lengths; thorough: every 16 bytes + every byte of the last 48), "
        "garbage of 9 kinds in either file, missing files, expired certificates with the check on and off, every "
        "combination of (first certificate read, key read, second certificate read) over a 9x5x9 alphabet with an update "
        "landing between the reads of one (re)load (FIFO-switched file), accepted-before / established-before connections "
        "across reloads, random histories; 6 scenarios through the real accept loop of Server::listen on a loopback socket "
        "(the next three connections after each successful reload must see the new leaf). Non-trivial = the history contains an accepted and a refused reload, or a reload "
        "whose two certificate reads differ, or a handshake of a connection accepted before a later successful reload; "
        "distinct by sha256 of the symbolic history.")
SIDE_LEMMAS = 9
ASSUMPTIONS = [
    "PEM / X.509 parsing (rustls-pemfile, x509-parser), the key-match test inside rustls (with_single_cert) and the file "
    "system are environment oracles: section variables in the theorems, classified by construction in the correspondence check",
    "check_expiry = true (default and the only value the server binary uses) for 'an expired certificate is refused'; "
    "CertReloader::new only logs an expired initial certificate",
    "the watcher task (inotify + debounce) is not modelled: watch_enabled = false in the driver; it only decides WHEN reload() runs",
    "no caller poisons the RwLocks (nothing in the crate writes through get_acceptor_ref)",
    "the model is tied to cert_reloader.rs by differential execution on the cases counted below (sampling)",
]
IMPL_TIMEOUT = 600
Case = Case
DAY = 86400

# ------------------------------------------------------------------------------- reference PEM reader
B64 = re.compile(rb"^[A-Za-z0-9+/]*={0,2}$")


class Malformed(Exception):
    pass


def pem_iter(data):
    """yields (label, der) in file order; raises Malformed at a broken BEGIN line, an unterminated block or
    bad base64. Text outside blocks is ignored; a line that starts with `-----BEGIN ` must end in exactly
    five dashes; an END line is `-----END <label>-----` (RFC 7468 as read by rustls-pki-types)."""
    label, body = None, []
    for ln in re.split(rb"[\r\n]", data):
        if ln.startswith(b"-----BEGIN "):
            t = ln.rstrip(b" ")
            dashes = len(t) - len(t.rstrip(b"-"))
            if dashes != 5:
                raise Malformed()
            if label is None:
                body = []
            label = t[11:len(t) - 5]
            continue
        if label is None:
            continue
        if ln.startswith(b"-----END " + label + b"-----"):
            try:
                der = base64.b64decode(b"".join(body), validate=True)
            except Exception:
                raise Malformed()
            yield (label, der)
            label = None
            continue
        if not B64.match(ln.strip()):
            raise Malformed()
        body.append(ln.strip())
    if label is not None:
        raise Malformed()


def pem_sections(data):
    """all sections of the file, or None if it is malformed anywhere (a certificate file is read to the end)"""
    try:
        return list(pem_iter(data))
    except Malformed:
        return None


def pem_first_key(data):
    """the first private-key section (a key file is read only up to it), or None"""
    try:
        for (l, d) in pem_iter(data):
            if l in KEY_LABELS:
                return d
    except Malformed:
        return None
    return None


KEY_LABELS = (b"PRIVATE KEY", b"RSA PRIVATE KEY", b"EC PRIVATE KEY")


# ------------------------------------------------------------------------------- material
class Material:
    """names -> bytes; certificates known by DER: fp, key id, identity, not_after offset"""

    def __init__(self):
        self.blob = {}
        self.cert_by_der = {}     # der -> dict(fp, kid, ident, off)
        self.key_by_der = {}      # der -> kid
        self.bad_der = set()
        self.ok = False

    def add_cert(self, name, pem, kid, serial_hex, cn, off):
        secs = pem_sections(pem)
        der = secs[0][1]
        self.blob[name] = pem
        self.cert_by_der[der] = {"fp": hashlib.sha256(der).hexdigest()[:16], "kid": kid,
                                 "ident": "%x/CN=%s" % (int(serial_hex, 16), cn), "off": off, "name": name}

    def add_key(self, name, pem, kid):
        self.blob[name] = pem
        self.key_by_der[pem_sections(pem)[0][1]] = kid

    # ---- classification of arbitrary bytes, by role
    def as_cert(self, data):
        secs = pem_sections(data)
        if secs is None:
            return ("n",)
        certs = [d for (l, d) in secs if l == b"CERTIFICATE"]
        if not certs:
            return ("n",)
        if certs[0] in self.cert_by_der:
            c = self.cert_by_der[certs[0]]
            return ("c", c["fp"], c["kid"], c["ident"], c["off"])
        if certs[0] in self.bad_der:
            return ("b",)
        raise ValueError("unclassifiable certificate bytes (generator bug)")

    def as_key(self, data):
        k = pem_first_key(data)
        if k is None:
            return ("n",)
        if k in self.key_by_der:
            return ("k", self.key_by_der[k])
        if k in self.bad_der:
            return ("b",)
        raise ValueError("unclassifiable key bytes (generator bug)")


def to_pem(label, der):
    b = base64.b64encode(der)
    return b"-----BEGIN " + label + b"-----\n" + b"\n".join(b[i:i + 64] for i in range(0, len(b), 64)) + b"\n-----END " + label + b"-----\n"


_MATERIAL = None
NKEYS = 4
# name, key index, serial, cn, not_before offset, not_after offset (seconds relative to generation time)
EXTRA = [("R0", 0, "0a77", "pool-0-renewed", -DAY, 3650 * DAY), ("R1", 1, "0b77", "pool-1-renewed", -DAY, 3650 * DAY),
         ("X0", 0, "0ae0", "pool-0-expired-2d", -30 * DAY, -2 * DAY), ("X1", 1, "0be0", "pool-1-expired-2d", -30 * DAY, -2 * DAY),
         ("W0", 0, "0ae1", "pool-0-expired-25h", -30 * DAY, -25 * 3600), ("Z0", 0, "0ae2", "pool-0-expired-23h", -30 * DAY, -23 * 3600),
         ("Y0", 0, "0ae3", "pool-0-expired-1h", -30 * DAY, -3600), ("Y1", 1, "0be3", "pool-1-expired-1h", -30 * DAY, -3600),
         ("S0", 0, "0ae4", "pool-0-expires-in-1h", -30 * DAY, 3600),
         # a renewal under another key that RE-USES the serial number of C0 (0a01): still a different certificate (seed C18-4)
         ("Q1", 1, "0a01", "pool-1-same-serial-as-C0", -DAY, 3650 * DAY)]


def material():
    """generate the pool through the harness (rcgen); cached for the process"""
    global _MATERIAL
    if _MATERIAL is not None:
        return _MATERIAL
    import vlib
    m = Material()
    _MATERIAL = m
    if not os.path.exists(vlib.HARNESS_BIN):
        return m
    lines = ["certgen k%d new %s pool-%d %d %d" % (i, "0%x%02x" % (10 + i, i + 1), i, -DAY, 3650 * DAY) for i in range(NKEYS)]
    res, errs = vlib.run_impl(lines, shards=1, timeout=120)
    keys = []
    for i in range(NKEYS):
        t = res.get("k%d" % i, "").split()
        if len(t) != 3 or t[0] != "OK":
            return m
        kp, cp = unhx(t[1]), unhx(t[2])
        keys.append(kp)
        m.add_key("K%d" % i, kp, "key%d" % i)
        m.add_cert("C%d" % i, cp, "key%d" % i, "0%x%02x" % (10 + i, i + 1), "pool-%d" % i, 3650 * DAY)
    lines = ["certgen %s %s %s %s %d %d" % (n, hx(keys[k]), s, cn, nb, na) for (n, k, s, cn, nb, na) in EXTRA]
    res, errs = vlib.run_impl(lines, shards=1, timeout=120)
    for (n, k, s, cn, nb, na) in EXTRA:
        t = res.get(n, "").split()
        if len(t) != 3 or t[0] != "OK":
            return m
        m.add_cert(n, unhx(t[2]), "key%d" % k, s, cn, na)
    # ---- derived blobs
    c0der = pem_sections(m.blob["C0"])[0][1]
    k0der = pem_sections(m.blob["K0"])[0][1]
    bad_c = bytes([0x31]) + c0der[1:]
    bad_k = bytes([0x31]) + k0der[1:]
    m.bad_der.update([bad_c, bad_k])
    r = rng(0, "C18-garbage")
    m.blob.update({
        "G.empty": b"", "G.text": b"this is not a certificate\n", "G.rand": bytes(r.getrandbits(8) | 0x80 for _ in range(300)),
        "G.der": c0der, "G.label": to_pem(b"GARBAGE", c0der), "G.hdr": m.blob["C0"][1:],
        "G.b64": m.blob["C0"].replace(b"\n", b"\n!!", 2), "G.badcert": to_pem(b"CERTIFICATE", bad_c),
        "G.badkey": to_pem(b"PRIVATE KEY", bad_k), "G.endmis": m.blob["C0"].replace(b"END CERTIFICATE", b"END PRIVATE KEY"),
        "G.trail": m.blob["C1"] + b"-----BEGIN CERTIFICATE-----\nAAAA",
        "CK0": m.blob["C0"] + m.blob["K0"], "KC1": m.blob["K1"] + m.blob["C1"], "C1C0": m.blob["C1"] + m.blob["C0"],
        "T.C1": b"# renewed\r\n" + m.blob["C1"].replace(b"\n", b"\r\n") + b"trailing text\n",
    })
    m.ok = True
    return m


GARBAGE = ["G.empty", "G.text", "G.rand", "G.der", "G.label", "G.hdr", "G.b64", "G.badcert", "G.badkey", "G.endmis", "G.trail"]


def resolve(m, name):
    """symbolic blob name -> bytes; `X^n` = the first n bytes of X"""
    if "^" in name:
        base, n = name.split("^")
        return m.blob[base][:int(n)]
    return m.blob[name]


def cls_tok(c):
    return "~".join(str(x) for x in c)


def mk(m, cid, ce, ops, kind, nontrivial=None, drv="cert", model=True):
    """build a Case from a symbolic history: ops use blob NAMES (Wc:C0, RR:C0:K0:C1, '-' = absent)"""
    names, idx = [], {}

    def ix(n):
        if n == "-":
            return "-"
        if n not in idx:
            idx[n] = len(names)
            names.append(n)
        return str(idx[n])
    out = []
    for op in ops:
        p = op.split(":")
        if p[0] in ("Wc", "Wk"):
            out.append(p[0] + ":" + ix(p[1]))
        elif p[0] in ("RR", "NN"):
            out.append(":".join([p[0], ix(p[1]), ix(p[2]), ix(p[3])]))
        else:
            out.append(op)
    toks = []
    for n in names:
        b = resolve(m, n)
        toks.append("%s|%s|%s" % (hx(b), cls_tok(m.as_cert(b)), cls_tok(m.as_key(b))))
    c = Case(cid, drv, [str(ce), str(len(names))] + toks + out, kind, False, meta={"history": " ".join(ops), "blobs": names}, model=model)
    c.nontrivial = is_nontrivial(c) if nontrivial is None else nontrivial
    return c


# ------------------------------------------------------------------------------- decoding a case (oracle side)
def decode(c):
    ce = c.args[0] == "1"
    n = int(c.args[1])
    blobs = []
    for t in c.args[2:2 + n]:
        h, cc, kc = t.split("|")
        blobs.append((cc.split("~"), kc.split("~")))
    return ce, blobs, c.args[2 + n:]


def valid_pair(blobs, ci, ki, ce, for_reload):
    """is (certificate blob ci, key blob ki) a complete, matching and (for a reload with the check on) unexpired pair?"""
    if ci is None or ki is None:
        return False
    cc, kc = blobs[ci][0], blobs[ki][1]
    if cc[0] != "c" or kc[0] != "k" or cc[2] != kc[1]:
        return False
    if for_reload and ce and int(cc[4]) < 0:
        return False
    return True


def walk(c):
    """yields (step, op, reads) with reads = (c1, k, c2) blob indices for the (re)load ops"""
    ce, blobs, ops = decode(c)
    dc = dk = None

    def b(t):
        return None if t == "-" else int(t)
    for step, op in enumerate(ops):
        p = op.split(":")
        rd = None
        if p[0] == "Wc":
            dc = b(p[1])
        elif p[0] == "Wk":
            dk = b(p[1])
        elif p[0] == "Dc":
            dc = None
        elif p[0] == "Dk":
            dk = None
        elif p[0] in ("N", "R"):
            rd = (dc, dk, dc)
        elif p[0] in ("NN", "RR"):
            rd = (b(p[1]), b(p[2]), b(p[3]))
            dc, dk = rd[2], rd[1]
        yield step, p, rd


def is_nontrivial(c):
    ce, blobs, ops = decode(c)
    have, ok, bad, torn, acc, snap = False, 0, 0, False, False, False
    acc_then_ok = False
    for step, p, rd in walk(c):
        if p[0] in ("N", "NN"):
            if any(valid_pair(blobs, x, rd[1], ce, False) for x in (rd[0],)):
                have = True
        if p[0] in ("R", "RR") and have:
            v = valid_pair(blobs, rd[0], rd[1], ce, True)
            ok += v
            bad += (not v)
            if rd[0] != rd[2]:
                torn = True
            if v and acc:
                acc_then_ok = True
        if p[0] in ("A", "E") and have:
            acc = True
        if p[0] in ("H", "P") and acc_then_ok:
            snap = True
    return (ok > 0 and bad > 0) or torn or snap


OBS = re.compile(r"^\[leaf=(\S+) info=(\S+) cnt=(\d+) last=(\S+)\]$")


def oracle(c, ir):
    """From the property text. A failed reload leaves all four observations as they were; a successful one
    serves and reports ONE certificate that was read in this reload together with a matching key (unexpired
    if the check is on), counts + 1 and stamps the time; disk states that cannot be a valid pair must be
    refused, a stable valid pair must be accepted; connections accepted / sessions established earlier
    keep the certificate they started with."""
    if ir.startswith("PANIC") or "BADOP" in ir or ir.startswith("BADCASE"):
        return "driver failed: " + ir[:200]
    if c.drv == "certlisten":
        return oracle_listen(c, ir)
    ce, blobs, ops = decode(c)
    toks = ir.split()
    pos = 0

    def take():
        nonlocal pos
        if pos >= len(toks):
            return None
        t = toks[pos]
        pos += 1
        return t
    def take_obs():
        nonlocal pos
        t = " ".join(toks[pos:pos + 4])
        pos += 4
        return t
    cur = None                     # (leaf, info, cnt, last) of the live reloader
    conns, sess = [], []

    def fits(ci, leaf, info):
        cc = blobs[ci][0]
        return cc[0] == "c" and cc[1] == leaf and cc[3] == info
    for step, p, rd in walk(c):
        o = p[0]
        if o in ("Wc", "Wk", "Dc", "Dk"):
            continue
        t = take()
        if t is None:
            return "output ends before op %d (%s)" % (step, ":".join(p))
        if o in ("N", "NN", "R", "RR"):
            if o in ("R", "RR") and cur is None:
                if t != "r=noreloader":
                    return "op %d: reload without a reloader gave %s" % (step, t)
                continue
            res = t.split("=", 1)[1]
            is_new = o in ("N", "NN")
            cands = [x for x in dict.fromkeys([rd[0], rd[2]]) if valid_pair(blobs, x, rd[1], ce, not is_new)]
            stable = rd[0] == rd[2]
            if res.startswith("err"):
                if stable and cands:
                    return "op %d (%s): a complete, matching%s pair on a stable disk was refused (%s)" % (
                        step, ":".join(p), "" if is_new else ", unexpired", res)
                if is_new:
                    continue       # no new reloader; the previous one (if any) stays in use by the driver
                ob = take_obs()
                m = OBS.match(ob or "")
                if not m:
                    return "op %d: no observation after the reload (%s)" % (step, ob)
                now = (m.group(1), m.group(2), int(m.group(3)), m.group(4))
                if now != cur:
                    names = ("served leaf", "reported info", "reload count", "last reload")
                    diff = ", ".join("%s %s -> %s" % (names[i], cur[i], now[i]) for i in range(4) if cur[i] != now[i])
                    return "op %d (%s): the reload FAILED (%s) but changed: %s" % (step, ":".join(p), res, diff)
                continue
            if res != "ok":
                return "op %d: unexpected result %s" % (step, t)
            ob = take_obs()
            m = OBS.match(ob or "")
            if not m:
                return "op %d: no observation after the %s (%s)" % (step, "load" if is_new else "reload", ob)
            now = (m.group(1), m.group(2), int(m.group(3)), m.group(4))
            if not cands:
                return "op %d (%s): accepted although no certificate read in this %s forms a complete, matching%s pair with the key read (served leaf %s, reported %s)" % (
                    step, ":".join(p), "load" if is_new else "reload", "" if is_new else ", unexpired", now[0], now[1])
            if not any(fits(x, now[0], now[1]) for x in cands):
                served = [i for i in range(len(blobs)) if blobs[i][0][0] == "c" and blobs[i][0][1] == now[0]]
                exp = any(int(blobs[i][0][4]) < 0 for i in served)
                return "op %d (%s): accepted, but the served leaf %s%s and the reported information %s are not one validated certificate of this %s (valid candidates: %s)" % (
                    step, ":".join(p), now[0], " (an EXPIRED certificate)" if exp and ce and not is_new else "", now[1],
                    "load" if is_new else "reload", ",".join(blobs[x][0][3] for x in cands))
            if is_new:
                if now[2] != 0 or now[3] != "none":
                    return "op %d: a fresh reloader reports count %d / last %s" % (step, now[2], now[3])
            else:
                if now[2] != cur[2] + 1:
                    return "op %d (%s): successful reload moved the counter %d -> %d" % (step, ":".join(p), cur[2], now[2])
                if now[3] != str(step):
                    return "op %d (%s): successful reload did not stamp last_reload (%s)" % (step, ":".join(p), now[3])
            cur = now
            continue
        if o == "A":
            if cur is None:
                if t != "a=noreloader":
                    return "op %d: %s" % (step, t)
                continue
            conns.append(cur[0])
            if t != "a=%d" % (len(conns) - 1):
                return "op %d: accept gave %s" % (step, t)
        elif o == "E":
            if cur is None:
                if t != "e=noreloader":
                    return "op %d: %s" % (step, t)
                continue
            sess.append(cur[0])
            if t != "e=%d:%s" % (len(sess) - 1, cur[0]):
                return "op %d: a new session got %s, the active certificate is %s" % (step, t, cur[0])
        elif o == "H":
            j = int(p[1])
            exp = "h=" + conns[j] if j < len(conns) else "h=noconn"
            if t != exp:
                return "op %d: connection %d was accepted when %s was active but its handshake presented %s" % (step, j, exp[2:], t[2:])
        elif o == "P":
            j = int(p[1])
            exp = "p=" + sess[j] if j < len(sess) else "p=nosession"
            if t != exp:
                return "op %d: session %d established with %s was disturbed: %s" % (step, j, exp[2:], t[2:])
    if pos != len(toks):
        return "unexpected extra output: " + " ".join(toks[pos:])[:120]
    return None


def oracle_listen(c, ir):
    """Real listener (server.rs `listen`) on a loopback socket: every connection made after a successful
    reload is served the NEW leaf -- the very next one included --, a failed reload keeps the current one."""
    ce, blobs, ops = decode(c)
    toks = ir.split()
    if len(toks) != sum(1 for o in ops if o.split(":")[0] in ("N", "R", "C")):
        return "listener scenario: %d results for the history %s: %s" % (len(toks), c.meta.get("history"), ir[:200])
    pos, leaf, since = 0, None, None
    for step, p, rd in walk(c):
        if p[0] not in ("N", "R", "C"):
            continue
        t = toks[pos]
        pos += 1
        if p[0] == "N":
            ok = valid_pair(blobs, rd[0], rd[1], ce, False)
            if (ok and t != "new=ok") or (not ok and not t.startswith("new=err")):
                return "op %d: listener start gave %s" % (step, t)
            if ok:
                leaf = blobs[rd[0]][0][1]
        elif leaf is None:
            if t not in ("r=noreloader", "c=noserver"):
                return "op %d: %s without a running listener" % (step, t)
        elif p[0] == "R":
            ok = valid_pair(blobs, rd[0], rd[1], ce, True)
            if ok and t != "r=ok":
                return "op %d: a complete, matching, unexpired pair on a stable disk was refused (%s)" % (step, t)
            if not ok and not t.startswith("r=err"):
                return "op %d: reload accepted a disk state that is not a valid pair (%s)" % (step, t)
            if ok:
                leaf, since = blobs[rd[0]][0][1], 0
        else:
            if t != "c=" + leaf:
                if since is not None:
                    return ("op %d: connection no. %d after the successful reload was served leaf %s by the listening server, "
                            "the active certificate is %s (the accept loop used a snapshot taken before the reload)" % (step, since + 1, t[2:], leaf))
                return "op %d: the listening server presented %s, the active certificate is %s" % (step, t[2:], leaf)
            if since is not None:
                since += 1
    return None


def same(c, ir, mr):
    return ir == mr


# ------------------------------------------------------------------------------- corpus + generators
def corpus_cases():
    """corpus/C18/*.cases: `cert <cid> <check_expiry> <symbolic history>`; blob names are resolved against
    the material of THIS run (time-relative certificates cannot be stored as bytes)"""
    import glob
    m = material()
    if not m.ok:
        return []
    out = []
    for f in sorted(glob.glob(os.path.join(VERIF, "corpus", "C18", "*.cases"))):
        for ln in open(f):
            ln = ln.strip()
            if not ln or ln.startswith("#"):
                continue
            t = ln.split()
            out.append(mk(m, "corpus_" + t[1], int(t[2]), t[3:], "corpus", True))
    return out


def trunc_points(n, tier, r):
    pts = {0, 1, 10, 27, 28, n - 1, n - 2, n - 3, n - 26, n - 27, n}
    grid = list(range(16, n, 16))
    if tier == "quick":
        pts.update(r.sample(grid, min(10, len(grid))))
    else:
        pts.update(grid)
        pts.update(range(max(0, n - 48), n + 1))
    return sorted(p for p in pts if 0 <= p <= n)


def gen_cases(tier, seed):
    m = material()
    if not m.ok:
        return []
    r = rng(seed, "C18")
    cs = []

    def add(ce, ops, kind):
        cs.append(mk(m, "c%d" % (len(cs) + 1), ce, ops, kind))
    pairs = [("C%d" % i, "K%d" % i) for i in range(NKEYS)]
    # ---- two-file updates, reload after every intermediate disk state, both write orders, atomic and not
    for (oc, ok_) in pairs[:2 if tier == "quick" else NKEYS]:
        for (nc, nk) in pairs:
            if nc == oc:
                continue
            for order in ("ck", "kc"):
                for atomic in (True, False):
                    ops = ["Wc:" + oc, "Wk:" + ok_, "N", "A", "E", "R"]
                    for f in order:
                        name, w = (nc, "Wc:") if f == "c" else (nk, "Wk:")
                        if not atomic:
                            n = len(m.blob[name])
                            for cut in (0, r.randrange(1, n - 1)):
                                ops += [w + "%s^%d" % (name, cut), "R"]
                        ops += [w + name, "R"]
                    ops += ["H:0", "P:0", "A", "H:1", "E", "P:1", "P:0"]
                    add(1, ops, "two-file-update")
    # ---- each file replaced alone (same key renewal = fine, foreign certificate / key = refused)
    for ce in (1, 0):
        add(ce, ["Wc:C0", "Wk:K0", "N", "A", "Wc:Q1", "Wk:K1", "R", "A", "Wc:C0", "Wk:K0", "R", "A", "Wc:Q1", "R", "A"], "same-serial-other-key")
        add(ce, ["Wc:C0", "Wk:K0", "N", "A", "Wc:R0", "R", "Wc:C1", "R", "Wc:R0", "Wk:K1", "R", "Wk:K0", "R", "Wc:C1C0", "R", "Wk:KC1", "R",
                 "Wc:T.C1", "R", "Wc:CK0", "Wk:CK0", "R", "H:0", "Dc", "R", "Wc:C0", "Dk", "R", "Wk:K0", "R"], "replaced-alone")
    # ---- truncation prefixes of either file
    for role, full, other in (("c", "C1", "K1"), ("k", "K1", "C1")):
        pts = trunc_points(len(m.blob[full]), tier, r)
        for i in range(0, len(pts), 8):
            ops = ["Wc:C0", "Wk:K0", "N", "E"]
            ops += ["Wk:" + other] if role == "c" else ["Wc:" + other]
            for p in pts[i:i + 8]:
                ops += ["W%s:%s^%d" % (role, full, p), "R"]
            ops += ["W%s:%s" % (role, full), "R", "P:0"]
            add(1, ops, "truncation")
    # truncation of the file of the ACTIVE pair (the same certificate, half rewritten in place)
    for role, full in (("c", "C0"), ("k", "K0")):
        n = len(m.blob[full])
        ops = ["Wc:C0", "Wk:K0", "N"]
        for p in sorted(r.sample(range(1, n - 1), 6)) + [n - 1]:
            ops += ["W%s:%s^%d" % (role, full, p), "R"]
        add(1, ops + ["W%s:%s" % (role, full), "R"], "truncation")
    # ---- garbage in either file, then recovery
    for g in GARBAGE:
        add(1, ["Wc:C0", "Wk:K0", "N", "A", "Wc:" + g, "R", "Wc:C1", "Wk:" + g, "R", "Wk:K1", "R", "Wc:" + g, "Wk:" + g, "R", "H:0", "Wc:C0", "Wk:K0", "R"], "garbage")
    add(1, ["Wc:K0", "Wk:C0", "N", "Wc:C0", "Wk:K0", "N", "Wc:K1", "Wk:C1", "R", "Wc:C1", "Wk:K1", "R"], "garbage")      # files swapped
    # ---- expiry
    for ce in (1, 0):
        add(ce, ["Wc:C0", "Wk:K0", "N", "Wc:X0", "R", "Wc:W0", "R", "Wc:Z0", "R", "Wc:Y0", "R", "Wc:S0", "R", "Wc:Y0", "R", "Wc:R0", "R",
                 "Wc:Y1", "Wk:K1", "R", "Wc:X1", "R", "Wc:C1", "R"], "expired")
        add(ce, ["Wc:Y0", "Wk:K0", "N", "R", "Wc:C0", "R", "Wc:X0", "N", "R"], "expired-initial")
    # ---- initial load
    for c_ in ("C0", "C1", "G.text", "-", "C0^100", "X0"):
        for k_ in ("K0", "G.text", "-", "K0^100"):
            add(1, (["Wc:" + c_] if c_ != "-" else []) + (["Wk:" + k_] if k_ != "-" else []) + ["N", "A", "R", "Wc:C1", "Wk:K1", "R"], "initial-load")
    # ---- explicit reads: an update of the certificate file landing between the reads of one (re)load
    ca = ["C0", "R0", "C1", "X0", "Y0", "G.text", "-", "C0^200", "G.badcert"]
    ka = ["K0", "K1", "G.text", "-", "K0^100"]
    combos = [(a, k, b) for a in ca for k in ka for b in ca]
    if tier == "quick":
        keep = [x for x in combos if x[1] == "K0" and x[0] in ("C0", "R0", "X0", "Y0", "C1") and x[2] in ("C0", "R0", "X0", "Y0", "C1", "-", "G.text")]
        combos = keep + r.sample([x for x in combos if x not in keep], 150)
    r.shuffle(combos)
    for i in range(0, len(combos), 6):
        ops = ["Wc:C0", "Wk:K0", "N", "A"]
        for (a, k, b) in combos[i:i + 6]:
            ops += ["RR:%s:%s:%s" % (a, k, b), "R"]
        add(1, ops + ["H:0"], "explicit-reads")
    for (a, k, b) in [("C0", "K0", "C1"), ("C0", "K0", "R0"), ("X0", "K0", "C0"), ("C0", "K0", "-"), ("C0", "K0", "G.text"), ("G.text", "K0", "C0"),
                      ("C1", "K0", "C0"), ("C0", "K1", "C1"), ("Y0", "K0", "R0")]:
        add(1, ["NN:%s:%s:%s" % (a, k, b), "A", "R", "H:0"], "explicit-reads-initial")
        add(0, ["Wc:C1", "Wk:K1", "N", "RR:%s:%s:%s" % (a, k, b), "R"], "explicit-reads-nocheck")
    # ---- the real accept loop (server.rs `listen`) on a loopback socket: oracle only, real time
    for ce, ops in [
        (1, "Wc:C0 Wk:K0 N C C Wc:C1 R C Wk:K1 R C C C Wc:G.text R C Wc:C0 Wk:K0 R C C C"),
        (1, "Wc:C1 Wk:K1 N C Wk:K0 R C Wc:C0 R C C C Wc:Y0 R C Wc:R0 R C C C"),
        (1, "Wc:C0 Wk:K0 N C Wc:C1 Wk:K1 R Wc:C2 Wk:K2 R C C C Dk R C Wk:K2 R C"),
        (1, "Wc:C0 Wk:K0 N Wc:C1 Wk:K1 R C C C"),
        (0, "Wc:C0 Wk:K0 N C Wc:X0 R C C C Wc:C0 R C C C"),
        (1, "Wc:C0 Wk:K0 N C Wc:C1^200 Wk:K1 R C Wc:C1 R C C C Wk:K1^100 R C"),
        (1, "Wc:C0 Wk:K0 N C Wc:Q1 Wk:K1 R C C C Wc:C0 Wk:K0 R C C"),
    ]:
        cs.append(mk(m, "c%d" % (len(cs) + 1), ce, ops.split(), "listener-real-socket", True, drv="certlisten", model=False))
    # ---- random histories
    nrand = 240 if tier == "quick" else 3000
    cnames = ["C0", "C1", "C2", "C3", "R0", "R1", "X0", "Y0", "S0", "Q1", "G.text", "G.badcert", "CK0", "C1C0"]
    knames = ["K0", "K1", "K2", "K3", "G.text", "G.badkey", "CK0", "KC1"]
    for i in range(nrand):
        ops = ["Wc:C0", "Wk:K0", "N"] if r.random() < 0.8 else []
        na = ne = 0
        for _ in range(r.randint(6, 24)):
            x = r.random()
            if x < 0.22:
                n = r.choice(cnames)
                ops.append("Wc:" + (n if r.random() < 0.8 else "%s^%d" % (n, r.randrange(len(m.blob[n])))))
            elif x < 0.40:
                n = r.choice(knames)
                ops.append("Wk:" + (n if r.random() < 0.8 else "%s^%d" % (n, r.randrange(len(m.blob[n])))))
            elif x < 0.44:
                ops.append(r.choice(["Dc", "Dk"]))
            elif x < 0.70:
                ops.append("R")
            elif x < 0.78:
                ops.append("RR:%s:%s:%s" % (r.choice(cnames + ["-"]), r.choice(knames + ["-"]), r.choice(cnames + ["-"])))
            elif x < 0.82:
                ops.append("N")
            elif x < 0.88:
                ops.append("A"); na += 1
            elif x < 0.92:
                ops.append("E"); ne += 1
            elif x < 0.96:
                ops.append("H:%d" % r.randrange(na + 1))
            else:
                ops.append("P:%d" % r.randrange(ne + 1))
        add(r.choice([1, 1, 1, 0]), ops, "random-history")
    return cs


# ------------------------------------------------------------------------------- shrinking
def fclass(f):
    """class of an oracle failure: its text without operation indices, fingerprints and counters"""
    return re.sub(r"\(.*?\)|[0-9a-f]{16}|\d+", "#", f)[:48]


def shrink(c, f):
    """drop operations from the symbolic history while the oracle still fails on the implementation"""
    import vlib
    m = material()
    ops = c.meta["history"].split()
    ce = int(c.args[0])

    def fails(o):
        try:
            cc = mk(m, "shrink", ce, o, c.kind, True, drv=c.drv, model=c.model)
        except Exception:
            return None
        res, _ = vlib.run_impl([cc.line()], shards=1, timeout=60)
        if "shrink" not in res:
            return None
        ff = oracle(cc, res["shrink"])
        return (cc, ff) if ff and fclass(ff) == fclass(f) else None
    best = (c, f)
    changed = True
    while changed and len(ops) > 1:
        changed = False
        for i in range(len(ops) - 1, -1, -1):
            if ops[i].split(":")[0] in ("A", "E"):
                continue          # indices of H:/P: refer to these
            o2 = ops[:i] + ops[i + 1:]
            x = fails(o2)
            if x:
                ops, best, changed = o2, x, True
                break
    cc, ff = best
    cc.cid = c.cid
    return cc, ff
