"""C19 -- a padding scheme pushed by the server takes effect on the client, for every push in the life of the
process. Driver: c19 (one history per FRESH PROCESS: the harness re-executes itself for every case, because the
default scheme is process-global)."""
import re
from .padding_common import *

RULE = ("histories in a fresh process each: optionally PaddingFactory::default() first (as the client binary does); a Client built "
        "from the built-in default or from a custom scheme; 1-4 sessions opened through Client::create_stream over in-memory "
        "transports, each paired with a real server Session holding the same or a different scheme (or none); the first packet "
        "(Settings+HeartRequest+SYN) flushed; data packets on any open session; UpdatePaddingScheme frames injected directly "
        "(parsable, unparsable, non-UTF-8, empty); successive pushes of 2-4 schemes with the same entries but different bytes (lines permuted, "
        "trailing newline, CRLF, blanks around = , -, a duplicated key where the last wins, an unknown extra key, junk lines) each "
        "followed by new sessions; a final query of the default. Observed: padding0 of each preamble, announced "
        "padding-md5, frames sent by the server, write lengths of every packet. Oracle (from the property text): a server pushes "
        "iff the announced digest differs from its own; after a parsable push the session's later packets are accepted by the "
        "pushed scheme's line k (C05 acceptor) and every later session's preamble / Settings / packets use it; an unparsable "
        "push changes nothing and the session stays open. Non-trivial = at least one adopted push followed by a packet or a session.")
SIDE_LEMMAS = 8
ASSUMPTIONS = ["md5 is a function argument of the model; 'different scheme text => different digest' is a hypothesis (injectivity) of C19_push_adopted only; the check uses real MD5",
               "one process = one history: the harness re-executes itself per case",
               "frames reach the peer in order over the in-memory transport; the client's heartbeat task contributes exactly one HeartRequest to packet 1 (virtual time never advances)",
               "the model is tied to factory.rs / session.rs / client.rs by differential execution on the histories counted below (sampling)"]
Case = PCase
IMPL_TIMEOUT = 900
IMPL_SHARDS = 16


def builtin_raw():
    src = open(os.path.join(os.environ.get("VERIF_REPO", "/repo"), "src/padding/factory.rs")).read()
    m = re.search(r'DEFAULT_PADDING_SCHEME\s*:\s*&str\s*=\s*r#"(.*?)"#', src, re.S)
    return m.group(1).encode() if m else b"stop=0"


def pool_scheme(r, j):
    stop = r.choice([2, 3, 4, 5, 6])
    lines = ["stop=%d" % stop]
    for k in range(0, stop + 1):
        if k > 0 and r.random() < 0.1:
            continue
        s = 40 + 97 * j + 331 * k + (13 if k == 0 else 200)
        ln = "%d-%d" % (s, s)
        x = r.random()
        if k > 0 and x < 0.25:
            ln += ",c,%d-%d" % (s + 50, s + 50)
        elif k > 0 and x < 0.35:
            ln = "%d-%d,%d-%d" % (30 + j, 30 + j, s, s)
        lines.append("%d=%s" % (k, ln))
    return "\n".join(lines).encode()


def variant(r, raw, kinds=None):
    """a scheme with the same entries as `raw` but different bytes (its md5, hence its identity, differs)"""
    lines = raw.decode().split("\n")
    kinds = kinds or r.sample(["permute", "trail", "crlf", "eqspace", "commaspace", "dupkey", "extrakey", "junkline", "dashspace"], r.choice([1, 1, 2, 3]))
    keys = [ln.split("=")[0].strip() for ln in lines if "=" in ln]
    if len(set(keys)) != len(keys):
        kinds = [kd for kd in kinds if kd != "permute"] or ["trail"]     # duplicated keys: the order matters
    kinds = sorted(kinds, key=lambda kd: kd != "permute")     # permute first: dupkey relies on line order
    sep, tail = "\n", ""
    for kd in kinds:
        if kd == "permute" and len(lines) > 1:
            first = lines[:]
            while lines == first:
                r.shuffle(lines)
        elif kd == "trail":
            tail = "\n"
        elif kd == "crlf":
            sep = "\r\n"
        elif kd == "eqspace":
            lines = [ln.replace("=", r.choice([" = ", " =", "=\t"]), 1) if "=" in ln else ln for ln in lines]
        elif kd == "commaspace":
            lines = [ln.replace(",", " , ") for ln in lines]
        elif kd == "dashspace":
            lines = [ln.replace("-", " - ") for ln in lines]
        elif kd == "dupkey":
            # an earlier binding of an existing key that the later (real) one overrides
            i = r.randrange(len(lines))
            key = lines[i].split("=")[0].strip()
            lines.insert(r.randint(0, i), key + ("=7" if key == "stop" else "=1-1"))
        elif kd == "extrakey":
            lines.insert(r.randint(0, len(lines)), r.choice(["x=1", "comment=same entries", "99=5-5"]))
        elif kd == "junkline":
            lines.insert(r.randint(0, len(lines)), r.choice(["# same scheme", "novalue", ""]))
    out = (sep.join(lines) + tail).encode()
    if out == raw:
        out = raw + b"\n"
    return out


JUNK_PUSH = [b"junk", b"stop=abc\n1=5-5", b"1=5-5\n2=6-6", b"stop=-1", b"stop=4294967296", b"\xff\xfe=1", b"stop 3", b"=3", b"stop=\xc3\x28"]


def corpus_cases():
    return [PCase(c.cid, c.drv, c.args, c.kind, c.nontrivial) for c in corpus("C19")]


def builtin_default():
    from . import c20
    return c20.default_scheme()


def gen_cases(tier, seed):
    r = rng(seed, "C19")
    cs = []
    nh = 260 if tier == "quick" else 2500
    for n in range(nh):
        pool = [pool_scheme(r, j) for j in range(4)]
        ops = []
        if r.random() < 0.5:
            ops.append("D")
        use_default = r.random() < 0.45
        ops.append("C:default" if use_default else "C:" + hx(pool[0]))
        if r.random() < 0.15:
            ops.append("D")
        nsess = r.choice([1, 2, 2, 3, 3, 4])
        ascii_only = True
        for i in range(nsess):
            x = r.random()
            srv = "-" if x < 0.2 else hx(r.choice(pool[1:] if x < 0.7 else pool))
            if not use_default and r.random() < 0.2:
                # the server runs the BUILT-IN default scheme, byte for byte, and the client was configured with another one:
                # a push like any other (seed C19-5)
                srv = hx(builtin_default())
            ops.append("N:" + srv)
            ops.append("K:%d" % i)
            for _ in range(r.choice([0, 1, 2, 3, 5])):
                y = r.random()
                j = r.randint(0, i)
                if y < 0.55:
                    ops.append("W:%d:%d" % (j, r.choice([0, 1, 10, 60, 400, 2000])))
                elif y < 0.8:
                    ops.append("P:%d:%s" % (j, hx(r.choice(pool))))
                elif y < 0.95:
                    raw = r.choice(JUNK_PUSH)
                    ascii_only = ascii_only and is_ascii(raw)
                    ops.append("P:%d:%s" % (j, hx(raw)))
                else:
                    ops.append("D" if r.random() < 0.5 else "P:%d:-" % j)
        if r.random() < 0.7:
            ops.append("Q")
        c = PCase("h%d" % n, "c19", ops, "history-default-client" if use_default else "history-custom-client", False, model=ascii_only)
        c.nontrivial = nontrivial(c)
        cs.append(c)
    # successive pushes of schemes that differ only in their BYTES (same entries): a scheme is identified by the
    # md5 of its raw text, so each of them must be adopted and announced by the sessions opened afterwards
    nv = 90 if tier == "quick" else 1500
    for n in range(nv):
        base = pool_scheme(r, r.randint(0, 3))
        vs = [base]
        for _ in range(r.choice([1, 2, 2, 3])):
            v = variant(r, r.choice(vs))
            if v not in vs:
                vs.append(v)
        if r.random() < 0.5:
            r.shuffle(vs)
        ops = []
        if r.random() < 0.4:
            ops.append("D")
        ops.append("C:default" if r.random() < 0.4 else "C:" + hx(pool_scheme(r, 5)))
        i = 0
        via_server = r.random() < 0.6
        if not via_server:
            ops += ["N:-", "K:0"]
            i = 1
        for j, v in enumerate(vs):
            if via_server:
                ops += ["N:" + hx(v), "K:%d" % i]
                i += 1
            else:
                ops.append("P:%d:%s" % (r.randint(0, i - 1), hx(v)))
            if r.random() < 0.5:
                ops.append("W:%d:%d" % (r.randint(0, i - 1), r.choice([1, 10, 60, 400])))
        # the sessions opened afterwards must announce the LAST pushed text, so its holder pushes nothing
        ops += ["N:" + hx(vs[-1]), "K:%d" % i]
        if r.random() < 0.5:
            ops += ["N:" + hx(vs[-1] if r.random() < 0.7 else vs[0]), "K:%d" % (i + 1)]
        if r.random() < 0.7:
            ops.append("Q")
        c = PCase("v%d" % n, "c19", ops, "history-byte-variants", True)
        cs.append(c)
    return cs


class Sim:
    """what the property says must be observed, history step by step"""

    def __init__(self, ops):
        self.ops = ops
        self.builtin = Scheme(builtin_raw())

    def walk(self, toks):
        """toks: result tokens. Yields failures. Also records whether an adopted push was followed by activity."""
        client, current, sessions = None, None, []
        pos = 0
        self.adopted_then_used = False
        self.draws = []           # one group per K / W packet, for the model
        adopted_pending = False

        def take(n):
            nonlocal pos
            t = toks[pos:pos + n]
            pos += n
            return t
        for op in self.ops:
            if op == "D":
                if take(1) != ["D"]:
                    return "result out of step at D"
            elif op == "Q":
                take(2)
            elif op.startswith("C:"):
                client = self.builtin if op == "C:default" else Scheme(unhx(op[2:]))
                if take(1) != ["C"]:
                    return "result out of step at C"
            elif op.startswith("N:"):
                t = take(3)
                if len(t) < 3 or t[0] != "N":
                    return "result out of step at %s: %s" % (op[:12], t)
                sch = current or client
                if adopted_pending:
                    self.adopted_then_used = True
                srv = None if op == "N:-" else Scheme(unhx(op[2:]))
                total, plen = int(t[1]), int(t[2])
                es = sch.entries(0)
                if not es or es[0] == "c":
                    want = (0, 0)
                else:
                    want = es[0]
                if not (want[0] <= plen <= want[1]) or total != 34 + plen:
                    return "session %d: preamble padding %d (total %d) is not line 0 = %s of the scheme in force (md5 %s)" % (len(sessions), plen, total, es[:1], sch.md5)
                sessions.append({"scheme": sch, "k": 0, "srv": srv, "announced": sch.md5})
            elif op.startswith("K:") or op.startswith("W:"):
                t = take(5 if op[0] == "W" else 6)
                if len(t) < 5 or t[0] != op[0]:
                    return "result out of step at %s: %s" % (op[:12], t)
                i = int(op.split(":")[1])
                s = sessions[i]
                if adopted_pending:
                    self.adopted_then_used = True
                if t[1] != "ok":
                    return "%s: write failed" % op
                s["k"] += 1
                k = s["k"]
                lens = [] if t[2] == "-" else [int(x) for x in t[2].split(",")]
                frames = [] if t[3] == "-" else t[3].split("~")
                if int(t[4]) != 0:
                    return "%s: %s trailing bytes after the last complete frame" % (op, t[4])
                npay = 3 if op[0] == "K" else 1
                wire, payload_len = b"", 0
                for idx, f in enumerate(frames):
                    p = f.split(":")
                    if p[0] == "4":
                        body = f[2:].replace(",", "\n").encode()
                        enc = ref_encode(4, 0, body)
                        if idx == 0 and op[0] == "K":
                            want = sorted(["%s=%s" % kv for kv in SETTINGS_FIXED] + ["padding-md5=" + s["announced"]])
                            if sorted(f[2:].split(",")) != want:
                                return "session %d announces %s, expected the digest %s of the scheme in force" % (i, f[2:], s["announced"])
                    elif p[0] == "0" and len(p) == 2:
                        enc = waste(int(p[1]))
                    elif p[0] == "upd":
                        return "client sent an UpdatePaddingScheme frame"
                    else:
                        c, sid, ln = int(p[0]), int(p[1]), int(p[2])
                        enc = ref_encode(c, sid, pattern(ln, 1, 1) if c == 2 else bytes(ln))
                    if idx < npay:
                        payload_len += len(enc)
                    elif not (p[0] == "0" and len(p) == 2):
                        return "%s: unexpected frame %s after the payload" % (op, f)
                    wire += enc
                if len(frames) < npay or sum(lens) != len(wire):
                    return "%s: frames %s do not match the write lengths %s" % (op, frames, lens)
                if op[0] == "K" and [f.split(":")[0] for f in frames[:3]] != ["4", "8", "1"]:
                    return "K: first packet is not Settings+HeartRequest+SYN: %s" % frames[:3]
                writes, q = [], 0
                for L in lens:
                    writes.append(wire[q:q + L])
                    q += L
                sch = s["scheme"]
                payload = wire[:payload_len]
                if k >= sch.stop:
                    self.draws.append([])
                    if writes != [payload]:
                        return "%s: packet %d >= stop %d of scheme %s must be plain, writes %s" % (op, k, sch.stop, sch.md5[:8], lens)
                else:
                    f4, dr = accept(sch.entries(k), payload, writes)
                    self.draws.append(dr)
                    if f4:
                        return "%s: packet %d of session %d is not shaped by line %d = %r of the scheme in force (md5 %s..): %s; writes %s" % (
                            op, k, i, k, sch.map.get(str(k)), sch.md5[:8], f4, lens)
                if op[0] == "K":
                    srvtxt = t[5]
                    pushed = [x for x in srvtxt.split("~") if x.startswith("upd:")]
                    if s["srv"] is None:
                        if srvtxt != "-":
                            return "K: no server but server frames %s" % srvtxt
                    else:
                        differ = s["srv"].md5 != s["announced"]
                        if differ and pushed != ["upd:" + s["srv"].md5]:
                            return "server holds %s.., client announced %s..: exactly one UpdatePaddingScheme expected, got %s" % (s["srv"].md5[:8], s["announced"][:8], srvtxt)
                        if not differ and pushed:
                            return "the scheme was pushed again although the client announced the server's digest %s.." % s["announced"][:8]
                        if differ:
                            current = s["srv"]
                            s["scheme"] = s["srv"]
                            adopted_pending = True
            elif op.startswith("P:"):
                t = take(2)
                if len(t) < 2 or t[0] != "P":
                    return "result out of step at P"
                if t[1] != "open":
                    return "session closed by a pushed scheme"
                _, i, raw = op.split(":")
                raw = unhx(raw)
                sch = Scheme(raw)
                if raw and sch.ok:
                    current = sch
                    sessions[int(i)]["scheme"] = sch
                    adopted_pending = True
        return None


def nontrivial(c):
    # an adopted push (server with another scheme, or a parsable P) followed by W / K / N
    seen = False
    for op in c.args:
        if op.startswith("P:") and Scheme(unhx(op.split(":")[2])).ok:
            seen = True
        elif op.startswith("N:") and op != "N:-":
            seen = True      # the server's scheme may differ: counted when followed by activity
        elif seen and op[0] in "WKN":
            return True
    return False


def oracle(c, ir):
    if ir.startswith("PANIC") or ir.startswith("CHILD") or "ERR" in ir.split()[:1]:
        return "history failed: %s" % ir[:120]
    if ir.endswith("NEW-SESSION-ERR"):
        return "opening a session failed: %s" % ir[-80:]
    sim = Sim(c.args)
    return sim.walk(ir.split())


def after_impl(cases, impl):
    for c in cases:
        if c.cid in impl:
            try:
                sim = Sim(c.args)
                sim.walk(impl[c.cid].split())
                c.draws = sim.draws
            except Exception:
                c.draws = None


def same(c, ir, mr):
    return ir == mr
