"""C20 -- hostile or garbled input cannot crash or wedge the proxy.
Own stream: driver `hostile` (arbitrary bytes into established in-memory sessions of both roles, a sibling
session in the same runtime, virtual time, global panic counter) compared with Sess.recv_all of the model.
Borrowed streams: the malformed / truncated / arbitrary-input cases of the front-end and parser packages
(C06 auth preamble, C07 destination header, C15 UDP-over-TCP stream, C16 SOCKS5, C17 HTTP, C04 scheme texts),
re-run here under their own reference oracles plus the C20 rule: no PANIC, no dead case, no hang."""
import hashlib, os, re
from .base import *
from . import c04, c06, c07, c10, c15, c16, c17

RULE = ("hostile: random byte strings and valid frame sequences mutated by bit flips, truncation, duplication, reordering and "
        "length-field corruption, all 256 command bytes with boundary stream ids and lengths, role-illegal frames, settings / scheme "
        "payloads (incl. sizes >= 2^31, 2^32-1, reversed ranges, junk), fed in random fragmentations to established client- and server-role "
        "sessions; afterwards the attacked session (if not closed) and a sibling session must still answer a HeartRequest; panics in any task "
        "are counted. Borrowed: every case of C04/C06/C07/C15/C16/C17 whose kind marks it malformed / truncated / arbitrary / non-ascii / bad. "
        "Non-trivial = the input contains at least one byte that is not part of a well-formed frame for the receiver's role, or a frame illegal for the role; "
        "distinct by sha256 of the case.")
SIDE_LEMMAS = 2
ASSUMPTIONS = ["Rust memory safety, allocator behaviour below the modelled limits and `tracing` formatting are not modelled",
               "a spinning task is detected by the case producing no result under virtual time (the settle timer never fires); bounded by the runner timeout",
               "isolation between sessions / connections is structural in the model (one state per connection, no shared state except the process-wide default padding scheme, C19); it is checked on the implementation by the sibling session / sibling connection of every case"]
Case = Case
IMPL_TIMEOUT = 900
REPO = os.environ.get("VERIF_REPO", "/repo")

BORROW = [(c04, ("non-ascii", "junk", "malformed", "oversize", "hostile", "bad", "shape")), (c06, ("trunc", "malformed", "garbage", "bad", "deviation")),
          (c07, ("malformed", "bad", "trunc", "garbage", "invalid")), (c15, ("malformed", "bad", "trunc", "garbage", "partial", "oversize")),
          (c16, ("malformed", "bad", "trunc", "req-", "version", "garbage", "cmd")), (c17, ("malformed", "non-ascii", "bad", "garbage", "64k")),
          # peer-supplied refusal texts (empty, whitespace, NUL, 64 KiB, not UTF-8, long multi-byte UTF-8), unknown ids, frames out of place
          (c10, ("open-race",))]


def default_scheme():
    t = open(os.path.join(REPO, "src/padding/factory.rs"), encoding="utf-8").read()
    m = re.search(r'DEFAULT_PADDING_SCHEME\s*:\s*&str\s*=\s*r#"(.*?)"#', t, re.S)
    return m.group(1).encode() if m else b"stop=8"


def enc(c, sid, data):
    return bytes([c & 255]) + (sid & 0xFFFFFFFF).to_bytes(4, "big") + (len(data) & 0xFFFF).to_bytes(2, "big") + data


def corpus_cases():
    return corpus("C20")


def settings(kv):
    return "\n".join("%s=%s" % p for p in kv).encode()


HOSTILE_SCHEMES = [b"stop=3\n1=2147483648-2147483648", b"stop=3\n1=4294967295-4294967295", b"stop=4\n1=70000-70000\n2=9223372036854775807-1",
                   b"stop=2\n1=1-1,c,c,c", b"stop=x", b"\xff\xfe=1", b"stop=3\n1=-5-5\n2=c", b"stop=99999999999", b"", b"stop=2\n1=65535-65535",
                   b"stop=8\n1=0-0\n2=30-20,c\n3=,,,-",
                   # sizes below the 7-byte frame header, reached after the payload is used up (seed C04-3)
                   b"stop=4\n0=4-4\n1=120-120,4-4\n2=1-1,2-2,3-3,5-5,6-6\n3=6-6", b"stop=3\n0=1-6\n1=1-6,1-6\n2=1-6,1-6,1-6",
                   # sizes below the frame header met while a 2..6-byte tail of the payload is still pending (seed C04-6)
                   b"stop=5\n0=3-3,2-2\n1=3-3,2-2\n2=5-5,1-1\n3=4-4,2-2,1-1\n4=1-1,1-1,1-1,1-1,1-1,1-1,1-1",
                   b"stop=4\n0=6-6,3-3\n1=10-10,2-2\n2=12-12,1-1\n3=2-2,2-2,2-2,1-1"]


def gen_cases(tier, seed):
    r = rng(seed, "C20")
    sch = default_scheme()
    md5 = hashlib.md5(sch).hexdigest().encode()
    cs = []

    def add(role, chunks, kind, nt=True):
        cs.append(Case("h%d" % (len(cs) + 1), "hostile", [role, hx(md5), hx(sch)] + [hx(c) for c in chunks if len(c)] , kind, nt))

    def frag(data):
        return [p for p in splits(r, data, r.randint(1, 5)) if p]
    n_rand = 150 if tier == "quick" else 6000
    for i in range(n_rand):
        role = r.choice("cs")
        ln = r.choice([1, 6, 7, 8, 14, 30, 100, 400])
        data = bytearray(rbytes(r, ln))
        if ln >= 7 and r.random() < 0.6:
            data[5] = 0; data[6] = r.randint(0, 9)
        add(role, frag(bytes(data)), "random-bytes")
    # every command byte x role, boundary ids / lengths, followed by a valid frame
    for c in range(256 if tier == "thorough" else 40):
        cb = c if tier == "thorough" else r.choice(list(range(0, 12)) + [r.randint(12, 255)])
        for role in "cs":
            sid = r.choice([0, 1, 2, 2**31, 2**32 - 1])
            body = rbytes(r, r.choice([0, 1, 5, 300]))
            add(role, frag(enc(cb, sid, body) + enc(8, 3, b"")), "cmd-byte")
    # valid traffic, mutated
    n_mut = 250 if tier == "quick" else 8000
    for i in range(n_mut):
        role = r.choice("cs")
        fr = []
        if role == "s":
            fr.append(enc(4, 0, settings([("v", r.choice(["2", "1", "x", "300", ""])), ("client", "t"), ("padding-md5", r.choice([md5.decode(), "0" * 32, ""]))])))
            for sid in range(1, r.randint(2, 4)):
                fr.append(enc(1, sid, b""))
                fr.append(enc(2, sid, rbytes(r, r.choice([0, 7, 40]))))
            fr.append(enc(3, 1, b""))
            fr.append(enc(7, 1, b""))            # SYNACK is illegal for a server
        else:
            fr.append(enc(10, 0, settings([("v", r.choice(["2", "9", "-1", "256"]))])))
            fr.append(enc(7, r.randint(0, 3), r.choice([b"", b"refused"])))
            fr.append(enc(2, r.randint(0, 3), rbytes(r, 9)))
            fr.append(enc(1, 5, b""))            # SYN is illegal for a client
            if r.random() < 0.5:
                fr.append(enc(6, 0, r.choice(HOSTILE_SCHEMES)))
            fr.append(enc(8, 1, b""))
        if r.random() < 0.3:
            fr.append(enc(5, 0, r.choice([b"", b"bye", b"\xff\xfe"])))
        kind = r.choice(["bitflip", "truncate", "duplicate", "reorder", "lenfield", "asis"])
        if kind == "reorder":
            r.shuffle(fr)
        if kind == "duplicate":
            k = r.randrange(len(fr)); fr.insert(k, fr[k])
        wire = bytearray(b"".join(fr))
        if kind == "bitflip" and wire:
            for _ in range(r.randint(1, 3)):
                p = r.randrange(len(wire)); wire[p] ^= 1 << r.randint(0, 7)
        if kind == "truncate" and wire:
            wire = wire[:r.randrange(len(wire))]
        if kind == "lenfield" and len(wire) >= 7:
            wire[5] = r.choice([0, 0, 255]); wire[6] = r.randint(0, 255)
        add(role, frag(bytes(wire)), "mutated-" + kind)
    # hostile scheme pushed to a client, then traffic that makes it write
    for sc in HOSTILE_SCHEMES:
        add("c", frag(enc(6, 0, sc) + enc(8, 1, b"") + enc(8, 2, b"")), "pushed-scheme")
    # ---- borrowed malformed streams of the front-end / parser packages
    for mod, marks in BORROW:
        try:
            sub = mod.gen_cases(tier, seed)
        except Exception as e:       # a generator that cannot run must not hide the rest
            cs.append(Case("borrow_err_%s" % mod.__name__.split(".")[-1], "hostile", ["c", hx(md5), hx(sch)], "borrow-error", False, {"error": repr(e)}))
            continue
        # quick tier: a cap per (driver, kind) -- not per package, which starved the kinds a generator emits late
        # (seed C20-2: the non-ASCII header lines of C17 come after 700 other malformed requests)
        per = {}
        for c in sub:
            if any(m in c.kind for m in marks):
                key = (c.drv, c.kind)
                cap = 40 if c.drv in ("socks", "http_e2e", "http_read", "authtls", "dial", "udpe2e") else 120
                if tier == "quick" and per.get(key, 0) >= cap:
                    continue
                per[key] = per.get(key, 0) + 1
                c.meta = dict(c.meta or {}, borrowed=mod.__name__.split(".")[-1])
                c.cid = "%s_%s" % (mod.__name__.split(".")[-1], c.cid)
                c.kind = "%s:%s" % (mod.__name__.split(".")[-1], c.kind)
                cs.append(c)
    return cs


MODS = {"c04": c04, "c06": c06, "c07": c07, "c15": c15, "c16": c16, "c17": c17, "c10": c10}


def after_impl(cases, impl):
    for name, mod in MODS.items():
        if hasattr(mod, "after_impl"):
            sub = [c for c in cases if (c.meta or {}).get("borrowed") == name]
            if sub:
                mod.after_impl(sub, impl)


def oracle(c, ir):
    if "PANIC" in ir:
        return "a task panicked on this input: %s" % ir[:300]
    b = (c.meta or {}).get("borrowed")
    if b:
        # the functional verdict on these inputs belongs to the owning property; C20 asks only that the input was
        # handled: a result came back (no dead or hung case), nothing panicked, no internal error marker
        if not ir.strip() or "UNKNOWN-DRIVER" in ir or "TIMEOUT" in ir.upper() and "timeout" not in ir:
            return "no usable result for a malformed front-end input: %r" % ir[:200]
        return None
    m = re.match(r"closed=(true|false) out=(\S+) new=(\S+) echo=(\S+) sibling=(\S+) shut=(true|false) panics=(\d+)", ir)
    if not m:
        return "unparsable result (crash or wedge?): %s" % ir[:200]
    closed, out, new, echo, sib, shut, panics = m.groups()
    if panics != "0":
        return "%s task panic(s) while handling this input" % panics
    if "TRUNCATED" in out or "STRAY" in out or "TRUNCATED" in echo or "STRAY" in echo:
        return "the session wrote something that does not parse as whole frames: %s" % ir[:300]
    if sib != "9.21845.-":
        return "the sibling session did not answer its HeartRequest (other sessions must be unaffected): sibling=%s" % sib
    if closed == "true" and shut != "true":
        return "the attacked session is closed but its transport was not shut down (not a clean close)"
    return None


def same(c, ir, mr):
    b = (c.meta or {}).get("borrowed")
    if b:
        return MODS[b].same(c, ir, mr)
    return ir == mr
