"""shared generator pieces for the scheduled driver `conc` (C09, C11, C05 ordering)."""
from .base import *
import itertools

def payload(t, k, big=False):
    # big: longer than every record size of the index scheme (1000+k), so that the burst is split inside the frame
    return "%02x%02x" % (t, k) + ("5a" * 2600 if big else "")

def prog_open_write(t, nwrites, with_await=False, disable_buf=True, big=False):
    p = ["O"]
    if disable_buf:
        p.append("B0")
    p += ["D:" + payload(t, k, big and k == 0) for k in range(nwrites)]
    if with_await:
        p.append("A")
    return p

def prog_open_send(t, nsends, with_await=False, disable_buf=True):
    """a proxied stream as the relays use it: open, then Stream::send_data (the outbound channel + forwarding task)"""
    p = ["O"]
    if disable_buf:
        p.append("B0")
    p += ["S:" + payload(t, k) for k in range(nsends)]
    if with_await:
        p.append("A")
    return p

def pump_prog(n):
    return ["P"] * n

def is_pump_prog(p):
    return bool(p) and all(x == "P" for x in p)

def render(mode, progs, sched):
    toks = [mode]
    for p in progs:
        toks.append("|")
        toks += (p if p else ["-"])
    toks.append("sched")
    toks += [str(x) for x in sched]
    return toks

def drain_suffix(ntasks, rounds):
    return [t for _ in range(rounds) for t in range(ntasks)]

def parse_out(out):
    """-> dict(skips, bursts=[(idx,[frame tok])], closed, shut, tasks={t:(pc,[res])})"""
    try:
        head, flags, tasks = out.split("|")
    except ValueError:
        return None
    pre, _, w = head.partition("W")
    bursts = []
    for b in w.split():
        idx, _, fr = b.partition(":")
        bursts.append((int(idx), [x for x in fr.split(",") if x]))
    fl = dict(x.split("=") for x in flags.split())
    ts = {}
    for tk in tasks.split():
        name, pc, res = tk.split(":", 2)
        ts[int(name[1:])] = (pc, [] if res == "-" else res.split(","))
    return {"skips": pre.split(), "bursts": bursts, "closed": fl.get("closed") == "true", "shut": fl.get("shut") == "true", "tasks": ts}
