"""Shared by c04.py / c05.py / c19.py (work package "padding"): an independent Python reading of the
padding scheme language, the reference frame parser, the range-based reference acceptor (C05) with
draw inference, the case type that carries inferred draws to the model, and the case generators.
Nothing here is derived from the Coq model: it is written from the property texts and the protocol."""
import hashlib, re
from .base import *

HDR = 7
MAX_SIZE = 65535      # a padding record is one frame; its length field is 16 bits (sizes above are ignored)
AUTH_HASH = bytes(0xa0 + i for i in range(32))

# ----------------------------------------------------------------------------- Rust text functions
RUST_WS = set([9, 10, 11, 12, 13, 32, 0x85, 0xA0, 0x1680, 0x2028, 0x2029, 0x202F, 0x205F, 0x3000] + list(range(0x2000, 0x200B)))


def rtrim(s):
    a, b = 0, len(s)
    while a < b and ord(s[a]) in RUST_WS:
        a += 1
    while b > a and ord(s[b - 1]) in RUST_WS:
        b -= 1
    return s[a:b]


def rlines(s):
    out = []
    parts = s.split("\n")
    for i, ln in enumerate(parts):
        last = i == len(parts) - 1
        if last:
            if ln != "":
                out.append(ln)
        else:
            out.append(ln[:-1] if ln.endswith("\r") else ln)
    return out


def rparse(s, signed, lo, hi):
    if not re.fullmatch(r"[+-]?[0-9]+" if signed else r"\+?[0-9]+", s, re.A):
        return None
    v = int(s)
    return v if lo <= v <= hi else None


def parse_map(raw):
    text = raw.decode("utf-8", errors="replace")
    m = {}
    for ln in rlines(text):
        if "=" in ln:
            k, v = ln.split("=", 1)
            m[rtrim(k)] = rtrim(v)
    return m


def is_ascii(raw):
    return all(b < 128 for b in raw)


class Scheme:
    """what the scheme text means, per the protocol description and the property texts"""

    def __init__(self, raw):
        self.raw = raw
        self.map = parse_map(raw)
        self.stop = None
        if "stop" in self.map:
            self.stop = rparse(self.map["stop"], False, 0, 2**32 - 1)
        self.ok = self.stop is not None
        self.md5 = hashlib.md5(raw).hexdigest()

    def entries(self, k, bound=MAX_SIZE):
        """line k as a list of 'c' | (lo, hi); entries that cannot be honoured are ignored"""
        spec = self.map.get(str(k))
        if spec is None:
            return []
        out = []
        for part in spec.split(","):
            part = rtrim(part)
            if part == "c":
                out.append("c")
                continue
            if "-" not in part:
                continue
            a, b = part.split("-", 1)
            lo = rparse(rtrim(a), True, -2**63, 2**63 - 1) or 0
            hi = rparse(rtrim(b), True, -2**63, 2**63 - 1) or 0
            if lo <= 0 or hi <= 0:
                continue
            lo, hi = min(lo, hi), max(lo, hi)
            if bound is not None and hi > bound:
                continue
            out.append((lo, hi))
        return out


# ----------------------------------------------------------------------------- frames
def ref_encode(c, sid, data):
    return bytes([c]) + sid.to_bytes(4, "big") + len(data).to_bytes(2, "big") + data


def ref_parse(wire):
    """reference frame parser: list of (cmdbyte, sid, data, rawbytes), remainder"""
    out, p = [], 0
    while len(wire) - p >= HDR:
        ln = int.from_bytes(wire[p + 5:p + 7], "big")
        if len(wire) - p < HDR + ln:
            break
        out.append((wire[p], int.from_bytes(wire[p + 1:p + 5], "big"), wire[p + 7:p + 7 + ln], wire[p:p + 7 + ln]))
        p += HDR + ln
    return out, wire[p:]


def waste(n):
    return b"\x00" + b"\x00\x00\x00\x00" + n.to_bytes(2, "big") + bytes(n)


def pattern(ln, a, b):
    if b == 0:
        return bytes([a & 255]) * ln
    return bytes((a + b * i) & 255 for i in range(ln))


def is_padding_frame(f):
    c, sid, data, _ = f
    return c == 0 and sid == 0 and not any(data)


def depad(parsed, expected):
    """delete padding frames from `parsed` so that `expected` remains (greedy; identical frames are
    interchangeable). Returns None or a failure text."""
    j = 0
    for f in parsed:
        if j < len(expected) and f[:3] == expected[j][:3]:
            j += 1
        elif is_padding_frame(f):
            continue
        else:
            return "frame cmd=%d sid=%d len=%d on the wire is neither the next submitted frame nor a padding frame" % (f[0], f[1], len(f[2]))
    if j != len(expected):
        return "only %d of the %d submitted frames are on the wire" % (j, len(expected))
    return None


# ----------------------------------------------------------------------------- acceptor (C05)
def accept(entries, payload, writes):
    """Range-based reference acceptor, from the property text. Returns (failure-or-None, draws) where
    draws = one inferred value per non-degenerate range (what the sender must have drawn)."""
    p, i, draws, fail = payload, 0, [], None

    def fill(rest):
        return [e[0] for e in rest if e != "c" and e[0] != e[1]]
    for idx, e in enumerate(entries):
        if e == "c":
            if len(p) == 0:
                if i != len(writes):
                    fail = "writes continue after a check mark although no payload remained"
                return fail, draws + fill(entries[idx:])
            continue
        lo, hi = e
        if i >= len(writes):
            return "scheme line has further sizes (%d-%d) but the packet ended after %d writes" % (lo, hi, i), draws + fill(entries[idx:])
        w = writes[i]
        i += 1
        L, r = len(w), len(p)
        d = lo
        if r == 0:
            s = L - HDR
            d = s
            if not (lo <= s <= hi):
                fail = fail or "padding-only record of %d bytes: %d-7 is outside %d-%d" % (L, L, lo, hi)
            elif w != waste(s):
                fail = fail or "padding-only record is not one zero-filled padding frame"
        elif L < r:
            d = L
            if not (lo <= L <= hi):
                fail = fail or "payload-only record of %d bytes is outside %d-%d (payload left %d)" % (L, lo, hi, r)
            elif w != p[:L]:
                fail = fail or "payload-only record does not carry the next payload bytes"
            p = p[L:]
        elif L == r:
            d = max(lo, r)
            if not (max(lo, r) <= min(hi, r + HDR)):
                fail = fail or "bare payload record of %d bytes, but no size in %d-%d leaves fewer than 8 bytes of room" % (L, lo, hi)
            elif w != p:
                fail = fail or "record does not carry the remaining payload"
            p = b""
        else:
            n = L - r - HDR
            d = L
            if not (lo <= L <= hi):
                fail = fail or "payload+padding record of %d bytes is outside %d-%d" % (L, lo, hi)
            elif n <= 0 or w != p + waste(max(n, 0)):
                fail = fail or "record of %d bytes is not the remaining %d payload bytes followed by one padding frame" % (L, r)
            p = b""
        if lo != hi:
            draws.append(min(max(d, lo), hi) if fail else d)
        if fail:
            return fail, draws + fill(entries[idx + 1:])
    rest = writes[i:]
    if len(p) > 0:
        if rest != [p]:
            fail = "after the last size the remaining %d payload bytes must go out as one write; got %s" % (len(p), [len(x) for x in rest])
    elif rest:
        fail = "writes after the payload and all sizes were exhausted: %s" % [len(x) for x in rest]
    return fail, draws


# ----------------------------------------------------------------------------- result parsing
def parse_ops_result(res):
    """`shape` output -> list per op of (events, err) with events = list of ('W', bytes) | ('|',)"""
    if res.startswith("PANIC") or res.startswith("ERR") or res.startswith("CHILD"):
        return None
    ops = []
    cur, err = [], False
    t = res.split()
    i = 0
    while i < len(t):
        x = t[i]
        if x == "W":
            cur.append(("W", unhx(t[i + 1])))
            i += 2
            continue
        if x == "|":
            cur.append(("|",))
        elif x == "E":
            err = True
        elif x == ";":
            ops.append((cur, err))
            cur, err = [], False
        else:
            cur.append((x,))
        i += 1
    return ops


def bursts_of(events):
    out, cur = [], []
    for e in events:
        if e[0] == "W":
            cur.append(e[1])
        elif e[0] == "|":
            out.append(cur)
            cur = []
    return out, cur


class PCase(Case):
    """a case whose model line carries the draws inferred from the implementation's output"""

    def __init__(self, *a, **k):
        super().__init__(*a, **k)
        self.draws = None

    def model_line(self):
        if not self.model:
            return None
        if self.draws is None:
            return self.line()
        return self.line() + " draws=" + ";".join(",".join(str(d) for d in g) for g in self.draws)

    @staticmethod
    def from_json(j):
        return PCase(j["cid"], j["drv"], j["args"], j.get("kind", ""), j.get("nontrivial", False), j.get("meta"), j.get("model", True))


SETTINGS_FIXED = [("v", "2"), ("client", "anytls-rs/0.1.0")]


def settings_len(md5hex):
    return len("\n".join(["%s=%s" % kv for kv in SETTINGS_FIXED] + ["padding-md5=" + md5hex]))


def shape_plan(c):
    """what a `shape` case submits: list of packets, each = list of expected frames
    (cmd, sid, data | None for the Settings frame), in transport order; plus frames never sent"""
    role, raw, ops = c.args[0], unhx(c.args[1]), c.args[2:]
    buffering, pending, packets = False, [], []
    for op in ops:
        if op.startswith("draws=") or op.startswith("maxw="):
            continue
        fr = []
        if op == "S":
            buffering = True
            fr = [(4, 0, None)]
        elif op == "U":
            buffering = False
            packets.append(None)
            continue
        elif op.startswith("F:"):
            cmd, sid, ln, a, b = [int(x) for x in op[2:].split(".")]
            fr = [(cmd if cmd <= 10 else 0, sid, pattern(ln, a, b))] if ln <= 65535 else "ERR"
        elif op.startswith("D:"):
            sid, ln, a, b = [int(x) for x in op[2:].split(".")]
            data = pattern(ln, a, b)
            fr = []
            while len(data) > 65535:
                fr.append((2, sid, data[:65535]))
                data = data[65535:]
            fr.append((2, sid, data))
        if fr == "ERR":
            packets.append("ERR")
            continue
        # every frame of the op is one write_frame call
        op_packets = []
        for f in fr:
            if buffering:
                pending.append(f)
            else:
                op_packets.append(pending + [f])
                pending = []
        packets.append(op_packets)
    return role, raw, packets


def frames_match(parsed, expected, md5hex):
    """expected frames vs parsed frames (same count); the Settings frame is compared as a set of lines"""
    if len(parsed) != len(expected):
        return "expected %d frames, found %d" % (len(expected), len(parsed))
    for pf, ef in zip(parsed, expected):
        if ef[2] is None:
            want = sorted(["%s=%s" % kv for kv in SETTINGS_FIXED] + ["padding-md5=" + md5hex])
            got = sorted(pf[2].decode("latin1").split("\n"))
            if pf[0] != 4 or pf[1] != 0 or got != want:
                return "Settings frame differs: %r" % (pf[2][:80],)
        elif (pf[0], pf[1], pf[2]) != ef:
            return "frame differs: cmd=%d sid=%d len=%d, submitted cmd=%d sid=%d len=%d" % (pf[0], pf[1], len(pf[2]), ef[0], ef[1], len(ef[2]))
    return None


def check_shape(c, ir, check_wire=True, check_sizes=True):
    """Common oracle walk over a `shape` case. Returns (failure-or-None, draws per transport packet).
    check_wire : C04 (complete frames, de-padded = submitted, no failure)
    check_sizes: C05 (write lengths permitted by line k; no padding from `stop` on and on the server)"""
    role, raw, packets = shape_plan(c)
    sch = Scheme(raw)
    draws = []
    if not sch.ok:
        return (None if ir == "ERR" else "scheme without a usable stop value was accepted: %s" % ir[:60]), draws
    if ir == "ERR":
        return "scheme rejected although stop=%d parses" % sch.stop, draws
    if ir.startswith("PANIC"):
        return "the sender crashed: %s" % ir[:120], draws
    ops = parse_ops_result(ir)
    if ops is None:
        return "unreadable result %s" % ir[:80], draws
    real_ops = [op for op in c.args[2:] if not op.startswith("draws=") and not op.startswith("maxw=")]
    if len(ops) != len(real_ops):
        return "result has %d op records for %d ops" % (len(ops), len(real_ops)), draws
    k = 0
    fail = None
    for (events, err), plan in zip(ops, packets):
        if plan is None:
            continue
        if plan == "ERR":
            if not err:
                fail = fail or "a frame with a payload above 65535 bytes was accepted"
            continue
        if err:
            fail = fail or "a write failed (E) although the transport never fails"
        bs, tail = bursts_of(events)
        if tail:
            fail = fail or "bytes written without a following flush"
        if len(bs) != len(plan):
            fail = fail or "expected %d packets from this operation, saw %d flushes" % (len(plan), len(bs))
            bs = bs[:len(plan)] + [[]] * (len(plan) - len(bs))
        for writes, frames in zip(bs, plan):
            k += 1
            wire = b"".join(writes)
            parsed, rest = ref_parse(wire)
            if any(len(w) == 0 for w in writes):
                fail = fail or "empty transport write"
            if check_wire:
                if rest:
                    fail = fail or "packet %d: %d trailing bytes do not form a complete frame" % (k, len(rest))
                exp = [(f[0], f[1], f[2] if f[2] is not None else parsed[i][2] if i < len(parsed) else b"") for i, f in enumerate(frames)]
                f2 = depad(parsed, exp)
                if f2:
                    fail = fail or "packet %d: %s" % (k, f2)
                f3 = frames_match(parsed[:len(frames)], frames, sch.md5)
                if f3 and not f2:
                    fail = fail or "packet %d: %s" % (k, f3)
            # the payload of this packet: the submitted frames as they appear on the wire
            payload = b"".join(f[3] for f in parsed[:len(frames)])
            if len(parsed) < len(frames) or frames_match(parsed[:len(frames)], frames, sch.md5):
                # cannot identify the payload on the wire: rebuild it from the plan
                payload = b"".join(ref_encode(f[0], f[1], f[2] if f[2] is not None else b"?" * settings_len(sch.md5)) for f in frames)
            if role == "s" or k >= sch.stop:
                draws.append([])
                if check_sizes and writes != [payload]:
                    fail = fail or "packet %d (%s): must be one plain write of the %d payload bytes, got writes %s" % (
                        k, "server" if role == "s" else "stop=%d" % sch.stop, len(payload), [len(w) for w in writes])
            else:
                es = sch.entries(k)
                f4, d = accept(es, payload, writes)
                draws.append(d)
                if check_sizes and f4:
                    fail = fail or "packet %d, line %r = %s: %s; writes %s" % (k, sch.map.get(str(k)), es, f4, [len(w) for w in writes])
    return fail, draws


# ----------------------------------------------------------------------------- canonical comparison
def canon_shape(res, raw):
    """write lengths + frames with the Settings lines sorted"""
    ops = parse_ops_result(res)
    if ops is None:
        return res.split()[0] if res else res
    out = []
    for events, err in ops:
        for e in events:
            if e[0] == "W":
                out.append(("L", len(e[1])))
            else:
                out.append(e)
        wire = b"".join(e[1] for e in events if e[0] == "W")
        parsed, rest = ref_parse(wire)
        for f in parsed:
            if f[0] == 4:
                out.append(("F", 4, f[1], tuple(sorted(f[2].split(b"\n")))))
            else:
                out.append(("F", f[0], f[1], hashlib.md5(f[2]).hexdigest(), len(f[2])))
        out.append(("R", hashlib.md5(rest).hexdigest()))
        out.append(("E", err))
    return out


# ----------------------------------------------------------------------------- generators
SIZE_TABLE = [1, 2, 6, 7, 8, 9, 10, 14, 15, 30, 100, 255, 256, 1000, 1400, 8192, 16384, 65527, 65528, 65529, 65534, 65535]
SIZE_OVER = [65536, 65537, 70000, 131072, 2**31 - 1, 2**31, 2**31 + 5, 2**32 - 1, 2**32, 2**32 + 30, 2**63 - 1, 2**63, 10**30]
JUNK_PARTS = ["x", "", "5", "5-", "-5", "5-6-7", "c-c", "0-5", "5-0", "-3-4", "cc", "C", "1e3-5", "5--6", "0x10-0x20", "٣-٣", "5-6 7", "--", "+-5-6"]


def hexs(s):
    return hx(s.encode() if isinstance(s, str) else s)


def fmt_num(r, v, fancy):
    s = str(v)
    if fancy:
        x = r.random()
        if x < 0.15:
            s = "+" + s
        elif x < 0.3:
            s = "0" * r.randint(1, 3) + s
        elif x < 0.4:
            s = " " + s + r.choice([" ", "\t"])
    return s


# sizes that stay cheap even on a tree without the size bound (no multi-gigabyte allocation, no
# multi-gigabyte trace): used by the session-level generators; the pure `sizes` driver uses SIZE_OVER
SIZE_OVER_SAFE = [65536, 65537, 70000, 131072, 2**31, 2**31 + 5, 2**32 - 1, 2**32, 2**32 + 30, 2**63 - 1, 2**63, 10**30]


def gen_range(r, over, fancy, nondeg=0.5):
    tab = SIZE_TABLE + ((SIZE_OVER_SAFE if over == "safe" else SIZE_OVER) if over else [])
    a = r.choice(tab) if r.random() < 0.6 else r.randint(1, 3000)
    if r.random() < nondeg:
        b = r.choice(tab) if r.random() < 0.3 else a + r.choice([1, 2, 7, 8, 50, 500])
    else:
        b = a
    if over == "safe" and max(a, b) > 200000:
        b = a = max(a, b)
    if r.random() < 0.25:
        a, b = b, a
    return fmt_num(r, a, fancy) + "-" + fmt_num(r, b, fancy)


def gen_line(r, over, fancy, junk, nondeg=0.5):
    n = r.choice([1, 1, 2, 2, 3, 4, 5, 8])
    parts = []
    for _ in range(n):
        x = r.random()
        if x < 0.22:
            parts.append(r.choice(["c", "c", " c", "c "]) if fancy else "c")
        elif junk and x < 0.30:
            parts.append(r.choice(JUNK_PARTS))
        else:
            parts.append(gen_range(r, over, fancy, nondeg))
    return ",".join(parts)


def gen_scheme(r, over=True, fancy=True, junk=True, stop=None, nondeg=0.5, lines=None):
    """grammar-based: returns the raw scheme text (str). Mostly valid."""
    if stop is None:
        stop = r.choice([0, 1, 2, 2, 3, 3, 4, 5, 8, 12, 2**32 - 1])
    nl = lines if lines is not None else min(stop, 12) + 1
    out = []
    stop_txt = fmt_num(r, stop, fancy)
    out.append("stop=" + stop_txt if not fancy or r.random() < 0.7 else " stop = " + stop_txt + " ")
    for k in range(0, nl + 1):
        if r.random() < 0.15:
            continue            # missing line
        key = str(k)
        if fancy and r.random() < 0.08:
            key = r.choice(["0" + key, "+" + key, " " + key + " ", key + " "])
        out.append(key + "=" + gen_line(r, over, fancy, junk, nondeg))
        if r.random() < 0.07:
            out.append(str(k) + "=" + gen_line(r, over, fancy, junk, nondeg))      # duplicate key: last wins
    if junk and r.random() < 0.3:
        out.insert(r.randint(0, len(out)), r.choice(["", "# comment", "novalue", "=5", "stop", "x=y=z", "stop=abc" if r.random() < 0.2 else "other=1"]))
    r.shuffle(out) if r.random() < 0.3 else None
    sep = "\r\n" if fancy and r.random() < 0.15 else "\n"
    txt = sep.join(out)
    if r.random() < 0.2:
        txt += sep
    return txt


def first_sizes(sch, k):
    es = sch.entries(k) if sch.ok else []
    return [e for e in es if e != "c"]


def gen_frame(r, total=None):
    """a frame spec `cmd.sid.len.a.b`; total = wanted encoded length (>= 7)"""
    if total is not None:
        ln = max(0, min(65535, total - HDR))
    else:
        ln = r.choice([0, 0, 1, 5, 9, 10, 40, 100, 300, 1000, 2000])
    cmd = r.choice([2, 2, 2, 2, 0, 0, 1, 3, 7, 8, 9, 200])
    sid = r.choice([0, 0, 1, 1, 2, 65536, 2**32 - 1])
    a, b = r.choice([(0, 0), (0, 0), (1, 1), (7, 3), (255, 1)])
    return "%d.%d.%d.%d.%d" % (cmd, sid, ln, a, b)


def gen_shape_ops(r, sch, role, big_ok=True):
    """operation list for one session: optional start (Settings buffered, several frames in packet 1),
    then single-frame packets up to stop+1; payload sizes chosen around the sizes of the line in force"""
    ops = []
    npk = min((sch.stop if sch.ok else 2), 6) + r.choice([0, 1, 2])
    npk = max(1, min(npk, 9))
    start = role == "c" and r.random() < 0.4
    k = 1

    def target(k):
        rs = first_sizes(sch, k)
        if rs and r.random() < 0.75:
            lo, hi = r.choice(rs)
            s = r.choice([lo, hi])
            if s > 200000:
                return None
            return max(HDR, s + r.choice([-9, -8, -7, -6, -1, 0, 1, 2, 7, 8, 20, s, 2 * s + 3]))
        return None
    if start:
        ops.append("S")
        for _ in range(r.choice([0, 1, 2, 3])):
            ops.append("F:" + gen_frame(r))
        ops.append("U")
        t = target(1)
        ops.append("F:" + gen_frame(r, t))
        k = 2
    while k <= npk:
        t = target(k)
        if t is not None and t > 65535 + HDR and big_ok and r.random() < 0.5:
            ops.append("D:1.%d.1.1" % (t - HDR))
            k += (t - HDR + 65534) // 65535
        else:
            ops.append("F:" + gen_frame(r, t))
            k += 1
    return ops


def nontrivial_shape(c):
    role, raw, packets = shape_plan(c)
    sch = Scheme(raw)
    if not sch.ok:
        return False
    for k in range(1, 4):
        es = sch.entries(k, bound=None)
        if len(es) >= 2 or any(e != "c" and e[1] >= 65529 for e in es):
            return True
    return False
