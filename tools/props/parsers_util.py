"""helpers shared by c06/c07/c15/c16 (work package parsers): reference codecs written from the
protocol descriptions (independent of the Coq model), canonicalisation of addresses."""
import ipaddress
from .base import *


def be16(n):
    return int(n).to_bytes(2, "big")


def all_splits2(data):
    return [[data[:i], data[i:]] for i in range(len(data) + 1)]


def bytewise(data):
    return [data[i:i + 1] for i in range(len(data))]


def frag(r, data, kmax=5, empty=True):
    """random fragmentation, sometimes with empty chunks in between"""
    parts = splits(r, data, r.randint(1, kmax))
    if empty and r.random() < 0.3:
        parts.insert(r.randint(0, len(parts)), b"")
    return parts


def chunks_arg(parts):
    return [hx(p) for p in parts] if parts else ["-"]


def text_to_dest(text_hex):
    """impl side: address text (hex of UTF-8) -> ('ip', packed) if it is an IP literal for Python too, plus raw bytes"""
    raw = unhx(text_hex)
    try:
        return ("ip", ipaddress.ip_address(raw.decode("ascii")).packed, raw)
    except Exception:
        return ("name", raw, raw)


def canon_dest_pair(model_tok, impl_hex):
    """model token V4:<hex> | V6:<hex> | N:<hex> against the text the implementation produced"""
    kind, _, h = model_tok.partition(":")
    raw = unhx(impl_hex)
    if kind in ("V4", "V6"):
        try:
            ip = ipaddress.ip_address(raw.decode("ascii"))
        except Exception:
            return False
        return ip.packed == unhx(h) and ip.version == (4 if kind == "V4" else 6)
    return raw == unhx(h)


def utf8_ok(b):
    try:
        bytes(b).decode("utf-8")
        return True
    except UnicodeDecodeError:
        return False


class Need(Exception):
    pass


class Bad(Exception):
    def __init__(self, cls):
        self.cls = cls


class Cur:
    """cursor over a byte string that distinguishes 'need more' from 'present'"""

    def __init__(self, data):
        self.d, self.p = data, 0

    def take(self, n):
        if self.p + n > len(self.d):
            raise Need()
        out = self.d[self.p:self.p + n]
        self.p += n
        return out

    def rest(self):
        return self.d[self.p:]


def ref_addr(cur, atyp):
    """SOCKS-style address after ATYP: returns ('V4'|'V6'|'N', bytes)"""
    if atyp == 1:
        return ("V4", cur.take(4))
    if atyp == 4:
        return ("V6", cur.take(16))
    if atyp == 3:
        n = cur.take(1)[0]
        if n == 0:
            raise Bad("LEN")
        name = cur.take(n)
        if not utf8_ok(name):
            raise Bad("UTF8")
        return ("N", name)
    raise Bad("ATYP")


def dest_tok(kind, val):
    return "%s:%s" % (kind, hx(val))


def enc_dest(kind, val, port):
    if kind == "V4":
        return b"\x01" + val + be16(port)
    if kind == "V6":
        return b"\x04" + val + be16(port)
    return b"\x03" + bytes([len(val) & 255]) + val + be16(port)


MAGIC = b"sp.v2.udp-over-tcp.arpa"
PORTS = [0, 1, 80, 255, 256, 443, 65535]
NAME_LENS = [1, 2, 63, 254, 255]


def rname(r, n):
    alpha = b"abcdefghijklmnopqrstuvwxyz0123456789-"
    s = bytearray(r.choice(alpha) for _ in range(n))
    for i in range(7, n - 1, 9):
        s[i] = ord(".")
    if n >= 1 and s[0] in b"0123456789":
        s[0] = ord("x")
    return bytes(s)
