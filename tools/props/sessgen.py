"""Shared by c01/c02/c08/c10 (work package "session"): payload generator / hash mirrored in
harness/src/drv_session.rs and extract/drv_session.ml, the padding schemes used by the `ss` driver, and
`PipeRef`, the reference oracle written from the property texts: every stream is a byte pipe per id and
direction, bytes for an id that is not open go nowhere, EOF follows the end of the stream and only that.
It knows nothing about the Coq model; chunk sizes of reads are not predicted (1 <= len <= cap is required)."""
import hashlib, os, re
from .base import *

REPO = os.environ.get("VERIF_REPO", "/repo")


def fnv(b):
    h = 0x811c9dc5
    for x in b:
        h = ((h ^ x) * 0x01000193) & 0xffffffff
    return h


_BLOCKS = {}


def gen(side, sid, off, n):
    """byte i of the stream = (sid*37 + [128 for the server side] + i*11 + (i>>8)*3) mod 256; period 65536"""
    base = sid * 37 + (128 if side == "s" else 0)
    if n <= 4096:
        return bytes((base + (off + i) * 11 + ((off + i) >> 8) * 3) & 255 for i in range(n))
    blk = _BLOCKS.get((side, sid))
    if blk is None:
        blk = bytes((base + i * 11 + (i >> 8) * 3) & 255 for i in range(65536))
        _BLOCKS[(side, sid)] = blk
    o = off % 65536
    reps = (o + n + 65535) // 65536
    return (blk * reps)[o:o + n]


def data_tok(b):
    return "d" + bytes(b).hex() if len(b) <= 64 else "d%d.%08x" % (len(b), fnv(b))


def default_scheme():
    try:
        s = open(os.path.join(REPO, "src/padding/factory.rs")).read()
        m = re.search(r'DEFAULT_PADDING_SCHEME: &str = r#"(.*?)"#', s, re.S)
        return m.group(1).encode()
    except Exception:
        return b"stop=8\n0=30-30\n1=100-400"


SCHEMES = [
    None,  # the library default
    b"stop=3\n0=10-20\n1=50-60,c,100-200\n2=300-400",
    b"stop=1\n0=5-5",
    b"stop=6\n0=30-30\n1=7-9\n2=1-3,c,1-3,c,1-3\n3=8000-9000\n4=60000-65000\n5=20-20,20-20,20-20,c,20-20",
    b"stop=0\n0=30-30",
]


def scheme_tokens(i):
    sch = SCHEMES[i % len(SCHEMES)] or default_scheme()
    md5 = hashlib.md5(sch).hexdigest().encode()
    return [sch.hex(), md5.hex()]


def enc(cmd, sid, data=b""):
    return bytes([cmd]) + sid.to_bytes(4, "big") + len(data).to_bytes(2, "big") + bytes(data)


CMD_SYN, CMD_PSH, CMD_FIN, CMD_SETTINGS, CMD_ALERT, CMD_SYNACK, CMD_HREQ = 1, 2, 3, 4, 5, 7, 8


class _Obj:
    def __init__(self):
        self.buf = bytearray()
        self.rpos = 0
        self.closed = False
        self.synack = None
        self.shut = False


class _End:
    def __init__(self, role):
        self.role = role
        self.objs = {}
        self.live = {}
        self.dead = False
        self.next_id = 1
        self.news = []
        self.carry = b""

    def new_obj(self, sid):
        old = self.live.pop(sid, None)
        if old is not None:
            old.closed = True
        o = _Obj()
        self.objs.setdefault(sid, []).append(o)
        self.live[sid] = o
        return o

    def end_session(self):
        for o in self.live.values():
            o.closed = True
            if o.synack is None:
                o.synack = "yc"
        self.live.clear()
        self.dead = True

    def deliver(self, cmd, sid, data):
        if self.dead:
            return
        if cmd == CMD_PSH:
            o = self.live.get(sid)
            if o is not None:
                o.buf += data
        elif cmd == CMD_SYN:
            if self.role == "s":
                self.new_obj(sid)
                self.news.append(sid)
        elif cmd == CMD_FIN:
            o = self.live.pop(sid, None)
            if o is not None:
                o.closed = True
        elif cmd == CMD_SYNACK:
            if self.role == "c":
                o = self.live.get(sid)
                if o is not None and o.synack is None:
                    o.synack = "yo" if len(data) == 0 else "ye%08x" % fnv(data)
        elif cmd == CMD_ALERT:
            self.end_session()


class PipeRef:
    """walk the ops of an `ss` case together with the implementation's result tokens"""

    def __init__(self, propagate_shutdown=False, tag_of=None):
        self.ends = {"c": _End("c"), "s": _End("s")}
        self.wire = {"c": [], "s": []}
        self.ptr = {"c": 0, "s": 0}
        self.eof_sent = {"c": False, "s": False}
        self.offs = {}
        self.propagate_shutdown = propagate_shutdown
        self.tag_of = tag_of
        self.stats = {"bytes_read": 0, "reads": 0, "eofs": 0}

    def payload(self, side, sid, n):
        off = self.offs.get((side, sid), 0)
        self.offs[(side, sid)] = off + n
        return gen(side, sid, off, n)

    def must_accept(self, side, sid, kk):
        """a send on a stream whose LOCAL sending direction has not ended must be accepted: the session is alive,
        the application did not shut the stream down; the peer's FIN ends only the other direction (C08)"""
        e = self.ends[side]
        objs = e.objs.get(sid, [])
        if e.dead or kk >= len(objs) or objs[kk].shut:
            return None
        o = objs[kk]
        after = " after the peer's FIN (the other direction must keep working)" if (o.closed and e.live.get(sid) is not o) else ""
        return "send on stream %d was refused although its sending direction is open%s: the bytes are lost" % (sid, after)

    def check(self, ops, toks):
        if len(toks) != len(ops):
            return "implementation printed %d results for %d operations: %s" % (len(toks), len(ops), " ".join(toks)[:200])
        for i, (op, tk) in enumerate(zip(ops, toks)):
            f = self.step(op, tk)
            if f:
                return "op #%d %s -> %s: %s" % (i, op, tk[:80], f)
        return None

    def step(self, op, tk):
        p = op.split(":")
        k = p[0]
        other = lambda s: "s" if s == "c" else "c"
        if k == "O":
            e = self.ends[p[1]]
            if e.dead:
                return None if tk == "o-" else "open on an ended session reported " + tk
            if tk == "o-":
                return "open_stream failed on a live session"
            sid = int(tk[1:])
            if sid in e.live and False:
                return "id %d handed out twice" % sid
            if sid in e.objs and p[1] == "c" and len(e.objs) < 2 ** 32:
                return "id %d handed out twice" % sid
            e.new_obj(sid)
            self.wire[p[1]].append((CMD_SYN, sid, b""))
            return None
        if k == "W":
            side, sid, n = p[1], int(p[2]), int(p[3])
            d = self.payload(side, sid, n)
            if tk == "w+":
                self.wire[side].append((CMD_PSH, sid, d))
            elif not self.ends[side].dead:
                return "write_data_frame was refused on a live session (the bytes are lost for stream %d)" % sid
            return None
        if k == "V":
            side, sid, n1, n2 = p[1], int(p[2]), int(p[3]), int(p[4])
            d1 = self.payload(side, sid, n1)
            d2 = self.payload(side, sid, n2)
            if tk == "v++":
                self.wire[side].append((CMD_PSH, sid, d1))
                self.wire[side].append((CMD_PSH, sid, d2))
            elif not self.ends[side].dead:
                return "write_data_frame was refused on a live session (the bytes are lost for stream %d)" % sid
            return None
        if k in ("S", "A"):
            side, sid, kk, n = p[1], int(p[2]), int(p[3]), int(p[4])
            d = self.payload(side, sid, n)
            if tk.endswith("!"):
                return "harness could not obtain exclusive access to the stream object (generator error)"
            if tk.endswith("+"):
                if not (k == "A" and n == 0):
                    self.wire[side].append((CMD_PSH, sid, d))
                return None
            return self.must_accept(side, sid, kk)
        if k == "P":
            if tk == "w+":
                self.wire[p[1]].append((CMD_PSH, int(p[2]), unhx(p[3])))
            elif not self.ends[p[1]].dead:
                return "write_data_frame was refused on a live session (the bytes are lost for stream %s)" % p[2]
            return None
        if k == "U":
            if tk == "s+":
                self.wire[p[1]].append((CMD_PSH, int(p[2]), unhx(p[4])))
                return None
            return self.must_accept(p[1], int(p[2]), int(p[3]))
        if k == "H":
            side, sid, kk = p[1], int(p[2]), int(p[3])
            if tk.endswith("!"):
                return "harness could not obtain exclusive access to the stream object (generator error)"
            objs = self.ends[side].objs.get(sid, [])
            if kk < len(objs):
                objs[kk].shut = True
                if self.propagate_shutdown:
                    self.wire[side].append(("SHUT", sid, b"stream.poll_shutdown"))
            return None
        if k == "G":
            side, cmd, sid, data = p[1], int(p[2]), int(p[3]), unhx(p[4])
            if tk == "g+":
                self.wire[side].append((cmd if cmd <= 10 else 0, sid, data))
            return None
        if k == "R":
            e = self.ends[p[1]]
            buf = e.carry + unhx(p[2])
            while len(buf) >= 7:
                ln = int.from_bytes(buf[5:7], "big")
                if len(buf) < 7 + ln:
                    break
                c = buf[0] if buf[0] <= 10 else 0
                e.deliver(c, int.from_bytes(buf[1:5], "big"), buf[7:7 + ln])
                buf = buf[7 + ln:]
            e.carry = buf
            return None
        if k == "X":
            frm, to = p[1], other(p[1])
            w = self.wire[frm]
            for (c, sid, d) in w[self.ptr[frm]:]:
                if c == "SHUT":
                    o = self.ends[to].live.get(sid)
                    if o is not None and not self.ends[to].dead:
                        o.closed = True
                        o.why = d.decode()
                else:
                    self.ends[to].deliver(c, sid, d)
            self.ptr[frm] = len(w)
            if self.ends[frm].dead and not self.eof_sent[frm]:
                self.eof_sent[frm] = True
                self.ends[to].end_session()
            return None
        if k in ("K", "Q", "L", "V"):
            return None
        if k == "D":
            side, sid, kk, cap = p[1], int(p[2]), int(p[3]), int(p[4])
            objs = self.ends[side].objs.get(sid, [])
            if kk >= len(objs):
                return None if tk == "x" else "read on a stream object that was never created returned " + tk
            o = objs[kk]
            avail = o.buf[o.rpos:]
            self.stats["reads"] += 1
            if tk == "x":
                return "the stream object was not handed to the application"
            if tk == "E":
                return "read failed with an error"
            if tk == "p":
                if avail:
                    return "reader is Pending although %d delivered bytes are waiting (lost data)" % len(avail)
                if o.closed:
                    why = getattr(o, "why", None)
                    if why:
                        return ("site=%s: the sender finished (shutdown) but the peer's reader is still Pending, no "
                                "end-of-stream arrived within the bounded virtual-time wait (a bounded wait is not "
                                "evidence of 'never')" % why)
                    return "reader is Pending after the stream ended and everything was read (EOF expected)"
                return None
            if tk == "e":
                self.stats["eofs"] += 1
                if avail:
                    return "EOF although %d bytes sent before the end were not yet returned (truncated)" % len(avail)
                if not o.closed:
                    return "EOF on a stream that has not ended (spurious end-of-stream)"
                return None
            if tk.startswith("d"):
                body = tk[1:]
                if "." in body:
                    ln, hs = body.split(".")
                    ln = int(ln)
                    got_hash = int(hs, 16)
                    got = None
                else:
                    got = unhx(body) if body else b""
                    ln = len(got)
                if ln == 0:
                    return "a read returned 0 bytes as data"
                if ln > cap:
                    return "read returned %d bytes into a buffer of %d" % (ln, cap)
                if ln > len(avail):
                    return "read returned %d bytes but only %d were sent (duplicated or invented data)" % (ln, len(avail))
                exp = bytes(avail[:ln])
                if got is not None:
                    if got != exp:
                        if self.tag_of is not None and any(x != self.tag_of(sid) for x in got):
                            return "stream %d received bytes that do not carry its tag: %s" % (sid, got.hex()[:64])
                        return "bytes differ from what was written at this position: got %s expected %s" % (got.hex()[:48], exp.hex()[:48])
                elif got_hash != fnv(exp):
                    return "%d bytes read differ from the %d bytes written at this position (hash)" % (ln, ln)
                o.rpos += ln
                self.stats["bytes_read"] += ln
                return None
            return "unexpected result token"
        if k == "T":
            n = len(self.ends[p[1]].live)
            exp = "t%d.%d" % (n, n)
            return None if tk == exp else "stream tables hold %s entries, %d stream(s) are open (state retained / lost)" % (tk[1:], n)
        if k == "C":
            self.ends[p[1]].end_session()
            return None
        if k == "E":
            self.ends[p[1]].end_session()
            return None
        if k == "Y":
            side, sid, kk = p[1], int(p[2]), int(p[3])
            objs = self.ends[side].objs.get(sid, [])
            if kk >= len(objs):
                return None if tk == "yx" else "verdict for a stream that does not exist: " + tk
            exp = objs[kk].synack or "yp"
            return None if tk == exp else "pending open reports %s, expected %s" % (tk, exp)
        if k == "N":
            e = self.ends[p[1]]
            exp = "n" + ",".join(str(x) for x in e.news) if e.news else "n-"
            e.news = []
            return None if tk == exp else "new streams announced %s, expected %s" % (tk, exp)
        return "unknown op"


def ss_case(cid, scheme_i, st, ops, kind, nontrivial):
    return Case(cid, "ss", scheme_tokens(scheme_i) + [1 if st else 0] + ops, kind, nontrivial)


def ss_oracle(c, ir, **kw):
    if ir.startswith("PANIC") or ir.startswith("BADSCHEME") or ir.startswith("START-FAILED"):
        return "implementation run failed: " + ir[:200]
    ops = c.args[3:]
    ref = PipeRef(**kw)
    return ref.check(ops, ir.split())


def drain(side, sid, k, caps, n):
    """n reads with capacities taken cyclically"""
    return ["D:%s:%d:%d:%d" % (side, sid, k, caps[i % len(caps)]) for i in range(n)]
