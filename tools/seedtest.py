#!/usr/bin/env python3
"""tools/seedtest.py <seed-out-dir> <seeded-id> <Cxx> [<Cyy> ...]
Confirms a seeded change (patch.diff + demo.rs + meta.json produced by an independent sub-agent) in a scratch
worktree of /repo, runs the named checks against it in isolated mode (VERIF_REPO), and files it under
/verif/seeded/<seeded-id>/ with what was run and what each check said. Nothing is ever applied to /repo."""
import json, os, re, shutil, subprocess, sys, time

V = os.path.dirname(os.path.dirname(os.path.abspath(__file__)))
src, sid, props = sys.argv[1], sys.argv[2], sys.argv[3:]
work = "/tmp/seedtest-" + sid
repo = work + "/repo"
target = work + "/target"
env = dict(os.environ, CARGO_NET_OFFLINE="true", CARGO_TARGET_DIR=target)


def sh(cmd, cwd=None, e=None, timeout=3600):
    p = subprocess.run(cmd, shell=True, cwd=cwd, env=e or env, capture_output=True, text=True, timeout=timeout)
    return p.returncode, p.stdout + p.stderr


def suite(tag):
    rc, out = sh("cargo test --workspace --no-fail-fast --offline 2>&1 | grep -E '^test result|FAILED|panicked at' ", cwd=repo)
    p = sum(int(m) for m in re.findall(r"(\d+) passed", out))
    f = sum(int(m) for m in re.findall(r"(\d+) failed", out))
    return {"what": "existing suite " + tag, "passed": p, "failed": f}


def demo(tag):
    rc, out = sh("cargo test --offline --test seed_demo 2>&1 | tail -40", cwd=repo)
    p = sum(int(m) for m in re.findall(r"(\d+) passed", out))
    f = sum(int(m) for m in re.findall(r"(\d+) failed", out))
    ok = ("test result: ok" in out) and f == 0 and p > 0
    return {"what": "demonstration " + tag, "passed": p, "failed": f, "verdict": "passes" if ok else "fails", "tail": out[-600:]}


shutil.rmtree(work, ignore_errors=True)
os.makedirs(work)
sh("git -C /repo worktree prune")
rc, out = sh("git -C /repo worktree add --detach %s HEAD" % repo)
assert rc == 0, out
sh("cp -a /repo/target %s" % target)
ran = []
try:
    shutil.copy(os.path.join(src, "demo.rs"), os.path.join(repo, "tests", "seed_demo.rs"))
    ran.append(demo("on the unchanged code"))
    rc, out = sh("git apply %s" % os.path.join(os.path.abspath(src), "patch.diff"), cwd=repo)
    assert rc == 0, "patch does not apply: " + out
    ran.append(demo("with the change"))
    os.remove(os.path.join(repo, "tests", "seed_demo.rs"))
    ran.append(suite("with the change"))
    confirmed = (ran[0]["verdict"] == "passes" and ran[1]["verdict"] == "fails" and ran[2]["failed"] == 0 and ran[2]["passed"] == 73)
    checks = {}
    for p in props:
        t0 = time.time()
        e2 = dict(os.environ, VERIF_REPO=repo)
        rc, out = sh("./check %s --tier quick" % p, cwd=V, e=e2, timeout=5400)
        vio = [l for l in out.splitlines() if l.startswith("VIOLATION")]
        detail = [l for l in out.splitlines() if l.startswith("oracle:") or l.startswith("broken:")]
        replay = None
        if vio:
            m = re.search(r"replay=(\S+)", vio[0])
            if m and os.path.exists(m.group(1)):
                replay = m.group(1)
        checks[p] = {"exit": rc, "violation_line": vio[0] if vio else None, "detail": detail[:3], "wall_s": round(time.time() - t0, 1)}
        if replay:
            dst = os.path.join(V, "seeded", sid)
            os.makedirs(dst, exist_ok=True)
            shutil.copy(replay, os.path.join(dst, "replay_%s.json" % p))
    dst = os.path.join(V, "seeded", sid)
    os.makedirs(dst, exist_ok=True)
    if os.path.realpath(src) != os.path.realpath(dst):
        shutil.copy(os.path.join(src, "patch.diff"), os.path.join(dst, "patch.diff"))
        shutil.copy(os.path.join(src, "demo.rs"), os.path.join(dst, "demo.rs"))
    meta = json.load(open(os.path.join(src, "meta.json")))
    meta.update({"seeded_id": sid, "confirmed": confirmed, "confirmation_runs": ran,
                 "repo_head": subprocess.check_output(["git", "-C", "/repo", "rev-parse", "--short", "HEAD"], text=True).strip(),
                 "checks": checks,
                 "how_to_rerun": "python3 tools/seedtest.py seeded/%s %s %s" % (sid, sid, " ".join(props))})
    json.dump(meta, open(os.path.join(dst, "meta.json"), "w"), indent=1)
    print(json.dumps({"confirmed": confirmed, "runs": [(r["what"], r.get("verdict"), r["passed"], r["failed"]) for r in ran], "checks": checks}, indent=1))
finally:
    sh("git -C /repo worktree remove --force %s" % repo)
    shutil.rmtree(work, ignore_errors=True)
    # remove the alt cache of this scratch copy
    import hashlib
    h = hashlib.sha256(os.path.realpath(repo).encode()).hexdigest()[:8]
    shutil.rmtree(os.path.join(V, ".cache", "alt-" + h), ignore_errors=True)
