#!/usr/bin/env python3
"""Regression test of the translator (tools/gen_constants.py). No cargo, no coq: translator-only runs.

 (i)  benign/B*/patch.diff (behaviour-preserving refactorings): the generated file must be BYTE-IDENTICAL to the one
      generated from unpatched HEAD and the problem list must be empty;
 (ii) seeded/<id>/patch.diff for the regression ids below (behaviour-breaking changes that are caught through a side
      lemma of Gen/Facts*.v or a translator item): the generated file must differ from the unpatched one in (at least)
      the recorded generated names, or -- for ids without recorded names -- differ / report a problem at all.

One scratch worktree per case under /tmp/wp-translator/ (removed afterwards); /repo is never touched.
usage: tools/test_translator.py [-j N] [--translator path] [case ...]      exit status 0 iff every case passes."""
import argparse, concurrent.futures, json, os, re, shutil, subprocess, sys, time

VERIF = os.path.dirname(os.path.dirname(os.path.abspath(__file__)))
REPO = "/repo"
WORK = "/tmp/wp-translator"

# seeded id -> generated names that must change (the names the side lemmas / translator items of the recorded run hang on)
REGRESSION = {
    "C02-1-64k-frame-limit": ["encode_max_payload"],
    "C03-1-encoder-64k-constant": ["encode_max_payload"],
    "C03-3-command-table-off-by-one": ["cmd_table", "cmd_default"],
    "C03-4-refused-encode-leaves-header": ["encode_max_payload"],
    "C04-1-size-bound-before-swap": ["padding_size_bound"],
    "C06-1-xor-fold-compare": ["auth_compares_whole_arrays"],
    "C06-2-auth-timeout-falls-through": ["auth_result_propagated_directly"],
    "C11-2-settings-after-spawn": ["start_settings_before_spawn"],
    "C12-1-min-idle-from-map-size": ["pool_reap_min_cmp", "pool_reap_unexpired_cmp"],
    "C12-2-close-outside-pool-lock": ["pool_reap_atomic_under_write_guard"],
    "C12-3-second-pop-unchecked": ["pool_get_skips_closed", "pool_get_takes_last"],
    "C12-4-reaper-min-zero-keeps-one": ["pool_reap_min_cmp"],
    "C13-2-seq-set-after-pool-insert": ["client_seq_set_before_add_real"],
    "C14-1-late-counter-sampling": ["hb_baseline_before_write"],
    "C14-2-sleep-rearmed-in-select": ["hb_rule_deadline_per_request", "hb_expire_cmp", "hb_answered_cmp", "hb_baseline_before_write"],
    "C15-2-client-udp-max-65487": ["udp_max_client"],
    "C18-1-acceptor-snapshot-before-accept": ["listen_snapshot_after_accept"],
    "C20-1-reversed-range-panics": ["padding_size_bound"],
}


def sh(cmd, **kw):
    return subprocess.run(cmd, capture_output=True, text=True, **kw)


def defs(path):
    d = {}
    try:
        for ln in open(path):
            m = re.match(r"Definition (\w+)", ln)
            if m:
                d[m.group(1)] = ln.rstrip("\n")
    except OSError:
        pass
    return d


def translate(translator, repo, out):
    env = dict(os.environ, VERIF_REPO=repo, VERIF_GEN_OUT=out)
    p = sh([sys.executable, translator], env=env)
    try:
        return json.loads([l for l in p.stdout.splitlines() if l.startswith("{")][-1])["problems"], None
    except Exception:
        return None, (p.stderr or p.stdout)[-400:]


def run_case(translator, kind, cid):
    """-> dict(id, kind, ok, detail)"""
    patch = os.path.join(VERIF, kind, cid, "patch.diff")
    wt = os.path.join(WORK, "wt-" + cid)
    out = os.path.join(WORK, "gen-" + cid + ".v")
    res = {"id": cid, "kind": kind, "ok": False, "detail": "", "changed": [], "problems": []}
    try:
        sh(["git", "-C", REPO, "worktree", "remove", "--force", wt])
        shutil.rmtree(wt, ignore_errors=True)
        a = sh(["git", "-C", REPO, "worktree", "add", "--detach", wt, "HEAD"])
        if a.returncode:
            res["detail"] = "worktree add failed: " + a.stderr[-200:]
            return res
        a = sh(["git", "apply", patch], cwd=wt)
        if a.returncode:
            res["detail"] = "patch does not apply: " + a.stderr[-200:]
            return res
        if os.path.exists(out):
            os.remove(out)
        probs, err = translate(translator, wt, out)
        if probs is None:
            res["detail"] = "translator crashed: " + err
            return res
        res["problems"] = probs
    finally:
        sh(["git", "-C", REPO, "worktree", "remove", "--force", wt])
        shutil.rmtree(wt, ignore_errors=True)
    base_path = os.path.join(WORK, "gen-HEAD.v")
    base, got = defs(base_path), defs(out)
    res["changed"] = sorted(k for k in set(base) | set(got) if base.get(k) != got.get(k))
    same_bytes = open(base_path, "rb").read() == open(out, "rb").read()
    if kind == "benign":
        res["ok"] = same_bytes and not probs
        res["detail"] = "identical, no problems" if res["ok"] else \
            "output %s; changed: %s; problems: %s" % ("identical" if same_bytes else "DIFFERS", res["changed"], [p.get("msg") if isinstance(p, dict) else p for p in probs])
    else:
        want = REGRESSION.get(cid) or []
        missing = [n for n in want if n not in res["changed"]]
        res["ok"] = (not missing) and (bool(res["changed"]) or bool(probs))
        res["detail"] = "changed: %s; %d problem(s)" % (", ".join(res["changed"]) or "-", len(probs)) + \
            ("" if not missing else "; NOT changed any more: " + ", ".join(missing))
        # every problem must be attributed to generated names that did change (or be global)
        bad = [p for p in probs if isinstance(p, dict) and p.get("names") and not set(p["names"]) & set(res["changed"])]
        if bad:
            res["detail"] += "; note: problem(s) attributed to unchanged names: %s" % [p["msg"] for p in bad]
    return res


def main():
    ap = argparse.ArgumentParser()
    ap.add_argument("-j", type=int, default=6)
    ap.add_argument("--translator", default=os.path.join(VERIF, "tools", "gen_constants.py"))
    ap.add_argument("cases", nargs="*")
    a = ap.parse_args()
    t0 = time.time()
    os.makedirs(WORK, exist_ok=True)
    sh(["git", "-C", REPO, "worktree", "prune"])
    benign = sorted(d for d in os.listdir(os.path.join(VERIF, "benign")) if os.path.exists(os.path.join(VERIF, "benign", d, "patch.diff")))
    seeded = [d for d in sorted(REGRESSION) if os.path.exists(os.path.join(VERIF, "seeded", d, "patch.diff"))]
    absent = [d for d in sorted(REGRESSION) if d not in seeded]
    jobs = [("benign", b) for b in benign] + [("seeded", s) for s in seeded]
    if a.cases:
        jobs = [j for j in jobs if j[1] in a.cases or j[1].split("-")[0] in a.cases]
    base_out = os.path.join(WORK, "gen-HEAD.v")
    if os.path.exists(base_out):
        os.remove(base_out)
    # the reference output comes from a clean worktree of HEAD (the working tree of /repo may carry somebody's edits)
    wt = os.path.join(WORK, "wt-HEAD")
    sh(["git", "-C", REPO, "worktree", "remove", "--force", wt])
    shutil.rmtree(wt, ignore_errors=True)
    sh(["git", "-C", REPO, "worktree", "add", "--detach", wt, "HEAD"])
    probs, err = translate(a.translator, wt, base_out)
    sh(["git", "-C", REPO, "worktree", "remove", "--force", wt])
    shutil.rmtree(wt, ignore_errors=True)
    rows = [{"id": "HEAD", "kind": "base", "ok": probs == [], "detail": "no problems" if probs == [] else "problems on the unpatched tree: %s" % (probs if probs is not None else err)}]
    with concurrent.futures.ThreadPoolExecutor(max_workers=max(1, a.j)) as ex:
        rows += list(ex.map(lambda j: run_case(a.translator, *j), jobs))
    for d in absent:
        rows.append({"id": d, "kind": "seeded", "ok": True, "detail": "(patch not present in seeded/: skipped)"})
    w = max(len(r["id"]) for r in rows)
    print("%-*s  %-7s %-5s %s" % (w, "case", "kind", "", "detail"))
    for r in rows:
        print("%-*s  %-7s %-5s %s" % (w, r["id"], r["kind"], "ok" if r["ok"] else "FAIL", r["detail"]))
    bad = [r for r in rows if not r["ok"]]
    for f in os.listdir(WORK):
        if f.startswith("gen-") and f.endswith(".v"):
            os.remove(os.path.join(WORK, f))
    sh(["git", "-C", REPO, "worktree", "prune"])
    try:
        os.rmdir(WORK)
    except OSError:
        pass
    print("%d case(s), %d failed, %.0fs" % (len(rows), len(bad), time.time() - t0))
    sys.exit(1 if bad else 0)


if __name__ == "__main__":
    main()
