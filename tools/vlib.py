"""vlib -- shared machinery of ./check: builds (Coq, extraction, harness), running the
model and the implementation on the same cases, comparison (K), oracle, evidence, verdict."""
import fcntl, glob, hashlib, json, os, re, subprocess, sys, time

VERIF = os.path.dirname(os.path.dirname(os.path.abspath(__file__)))
REPO = os.environ.get("VERIF_REPO", "/repo")
MAIN_CACHE = os.path.join(VERIF, ".cache")
# VERIF_REPO=<scratch copy of /repo>: mutation testing in isolation. Everything that depends on the
# repository (generated constants, .vo files, extracted model, harness build, evidence, replays) then
# lives under .cache/alt-<hash>/ and nothing shared is touched.
ALT = os.path.realpath(REPO) != "/repo"
ALT_DIR = os.path.join(MAIN_CACHE, "alt-" + hashlib.sha256(os.path.realpath(REPO).encode()).hexdigest()[:8])
CACHE = ALT_DIR if ALT else MAIN_CACHE
COQ_SRC = os.path.join(VERIF, "coq")
COQ = os.path.join(ALT_DIR, "coq") if ALT else COQ_SRC
OUT = ALT_DIR if ALT else VERIF          # evidence/ and replays/ live here
EXTRACT = os.path.join(VERIF, "extract")
HARNESS_SRC = os.path.join(VERIF, "harness")
HARNESS = os.path.join(ALT_DIR, "harness") if ALT else HARNESS_SRC
TARGET = os.path.join(CACHE, "target")
HARNESS_BIN = os.path.join(TARGET, "debug", "anytls-verif")
HARNESS_BIN_REL = os.path.join(TARGET, "release", "anytls-verif")
MODEL_BIN = os.path.join(CACHE, "extract", "model_run")


def prepare_alt():
    """mirror coq/ (with compiled files, keeping mtimes) into the alt dir"""
    if not ALT:
        return
    os.makedirs(ALT_DIR, exist_ok=True)
    # --update: never overwrite files that were rebuilt (newer) in the alt dir; make decides what is stale
    subprocess.run(["rsync", "-a", "--update", COQ_SRC + "/", COQ + "/"], check=False)
GUARD = "anytls_rs_verif"

ALLOWED_AXIOMS = set()   # every pinned theorem must be "Closed under the global context"

TRUSTED_BASE = [
    "Coq 8.16.1 kernel (coqc full .vo build; vm_compute used in side lemmas and examples; no native_compute)",
    "axioms: none (Print Assumptions of every pinned theorem must say 'Closed under the global context')",
    "tools/gen_constants.py (translator: a Rust lexer, a constant-expression evaluator with named-const resolution, and pattern extraction of literals, the Command match table and boolean/integer structural facts about the shape of named functions, into Gen/Generated.v; regression-tested by tools/test_translator.py against behaviour-preserving and behaviour-breaking patches)",
    "extraction with ExtrOcamlBasic only (Extract Inductive bool/option/list/prod/unit/sumbool; no Extract Constant), ocamlopt 4.13.1, extract/driver*.ml",
    "harness/ (Rust executor of the implementation), tools/ (Python generators, reference oracles, comparison)",
    "hand-written Gallina models are tied to the code by differential execution (sampling), not by proof",
]


def log(*a):
    print(*a, file=sys.stderr, flush=True)


def env_offline():
    e = dict(os.environ)
    e["CARGO_NET_OFFLINE"] = "true"
    e["CARGO_TARGET_DIR"] = TARGET
    e["RUSTFLAGS"] = "--cfg " + GUARD
    return e


class Lock:
    def __init__(self, name="build.lock"):
        os.makedirs(CACHE, exist_ok=True)
        self.path = os.path.join(CACHE, name)

    def __enter__(self):
        self.f = open(self.path, "w")
        fcntl.flock(self.f, fcntl.LOCK_EX)
        return self

    def __exit__(self, *a):
        fcntl.flock(self.f, fcntl.LOCK_UN)
        self.f.close()


def run(cmd, cwd=None, timeout=1800, env=None, inp=None):
    t0 = time.time()
    try:
        p = subprocess.run(cmd, cwd=cwd, env=env, input=inp, capture_output=True, text=True, timeout=timeout)
        return p.returncode, p.stdout, p.stderr, time.time() - t0
    except subprocess.TimeoutExpired as e:
        return 124, (e.stdout or b"").decode(errors="replace") if isinstance(e.stdout, bytes) else (e.stdout or ""), "TIMEOUT", time.time() - t0


# ----------------------------------------------------------------------------- builds
def gen_constants():
    prepare_alt()
    e = dict(os.environ)
    e["VERIF_GEN_OUT"] = os.path.join(COQ, "Gen", "Generated.v")
    rc, out, err, _ = run([sys.executable, os.path.join(VERIF, "tools", "gen_constants.py")], env=e)
    # problems are dicts {"msg", "file", "names": [generated definitions the problem affects]}; an empty `names` list means
    # the problem is global (it concerns every property). ./check attributes them to properties (translator_scope).
    try:
        probs = json.loads([ln for ln in out.strip().splitlines() if ln.startswith("{")][-1])["problems"]
    except Exception:
        return [{"msg": "gen_constants.py failed: " + (err or out)[-400:], "file": "", "names": []}]
    return [p if isinstance(p, dict) else {"msg": str(p), "file": "", "names": []} for p in probs]


COQ_DIRS = ["Model", "Gen", "Proofs", "Legacy", "Props", "Extract"]   # Gen/Generated.v is regenerated; Gen/Facts*.v are its side lemmas


def gen_extract_v():
    """Extract/Extract.v is generated from Extract/exports/*.txt (one file per work package):
    lines `Require <Module>` and identifiers to extract."""
    mods, names = [], []
    for f in sorted(glob.glob(os.path.join(COQ, "Extract", "exports", "*.txt"))):
        for ln in open(f):
            ln = ln.split("#")[0].strip()
            if not ln:
                continue
            if ln.startswith("Require "):
                for m in ln[len("Require "):].split():
                    if m not in mods:
                        mods.append(m)
            else:
                for n in ln.split():
                    if n not in names:
                        names.append(n)
    txt = ("(* GENERATED by tools/vlib.py from Extract/exports/*.txt -- do not edit.\n"
           "   Extraction of the executable models to OCaml. ExtrOcamlBasic only: bool, option, list, prod,\n"
           "   unit, sumbool map to OCaml natives; N, Z, positive, nat stay Coq datatypes. No Extract Constant. *)\n"
           "From Coq Require Import ExtrOcamlBasic.\nFrom Coq Require Import List NArith ZArith.\n"
           "From AnyTLS Require Import %s.\nExtraction Language OCaml.\nSet Extraction AccessOpaque.\n"
           "Extraction \"model.ml\"\n  %s.\n" % (" ".join(mods), "\n  ".join(names)))
    out = os.path.join(COQ, "Extract", "Extract.v")
    if not os.path.exists(out) or open(out).read() != txt:
        with open(out, "w") as f:
            f.write(txt)


def coq_makefile():
    """_CoqProject is generated: every .v under the model/proof directories"""
    gen_extract_v()
    files = []
    for d in COQ_DIRS:
        files += sorted(os.path.relpath(f, COQ) for f in glob.glob(os.path.join(COQ, d, "*.v")))
    if "Gen/Generated.v" not in files:
        files.append("Gen/Generated.v")
    txt = "".join("-Q %s AnyTLS\n" % d for d in COQ_DIRS) + "\n".join(files) + "\n"
    cp = os.path.join(COQ, "_CoqProject")
    mk = os.path.join(COQ, "Makefile.gen")
    if not os.path.exists(cp) or open(cp).read() != txt or not os.path.exists(mk):
        with open(cp, "w") as f:
            f.write(txt)
        run(["coq_makefile", "-f", "_CoqProject", "-o", "Makefile.gen"], cwd=COQ)


def coq_build(targets, timeout=1500):
    """make the given .vo targets; returns (ok, tail_of_log)"""
    coq_makefile()
    rc, out, err, dt = run(["make", "-f", "Makefile.gen", "-j16", "-k"] + targets, cwd=COQ, timeout=timeout)
    return rc == 0, (out + err)[-3000:]


def build_model():
    """Extraction -> OCaml -> model_run. Returns (ok, log)"""
    ok, lg = coq_build(["Extract/Extract.vo"])
    if not ok:
        return False, lg
    d = os.path.join(CACHE, "extract")
    os.makedirs(d, exist_ok=True)
    srcs = [os.path.join(COQ, "model.ml"), os.path.join(COQ, "model.mli")] + sorted(f for f in glob.glob(os.path.join(EXTRACT, "*.ml")) if os.path.basename(f) not in ("model.ml",))
    h = hashlib.sha256()
    for s in srcs:
        with open(s, "rb") as f:
            h.update(f.read())
    stamp = os.path.join(d, "stamp")
    if os.path.exists(MODEL_BIN) and os.path.exists(stamp) and open(stamp).read() == h.hexdigest():
        return True, "cached"
    for s in srcs:
        with open(s, "rb") as f, open(os.path.join(d, os.path.basename(s)), "wb") as g:
            g.write(f.read())
    others = [os.path.basename(s) for s in sorted(glob.glob(os.path.join(EXTRACT, "*.ml")))]
    others = [o for o in others if o not in ("model.ml", "driver.ml", "util.ml")]
    order = ["model.mli", "model.ml", "util.ml"] + others + ["driver.ml"]
    rc, out, err, _ = run(["ocamlfind", "ocamlopt", "-w", "-a"] + order + ["-o", "model_run"], cwd=d, timeout=900)
    if rc != 0:
        return False, (out + err)[-3000:]
    with open(stamp, "w") as f:
        f.write(h.hexdigest())
    return True, "built"


def _prepare_alt_harness():
    """copy harness/ to .cache/alt/harness with the path dependency pointing at VERIF_REPO"""
    import shutil
    os.makedirs(os.path.dirname(HARNESS), exist_ok=True)
    if os.path.exists(HARNESS):
        shutil.rmtree(HARNESS)
    shutil.copytree(HARNESS_SRC, HARNESS, ignore=shutil.ignore_patterns("target"))
    ct = os.path.join(HARNESS, "Cargo.toml")
    txt = open(ct).read().replace('path = "/repo"', 'path = "%s"' % REPO)
    open(ct, "w").write(txt)
    if not os.path.exists(TARGET) and os.path.exists(os.path.join(MAIN_CACHE, "target")):
        # reuse the compiled dependencies of the main target dir
        subprocess.run(["cp", "-a", "--reflink=auto", os.path.join(MAIN_CACHE, "target"), TARGET])


def build_harness(release=False):
    if ALT:
        _prepare_alt_harness()
    lock_src = os.path.join(REPO, "Cargo.lock")
    lock_dst = os.path.join(HARNESS, "Cargo.lock")
    # keep a copy of /repo's Cargo.lock (refreshed when /repo's changes) so resolution works offline
    try:
        os.makedirs(CACHE, exist_ok=True)
        stamp = os.path.join(CACHE, "repo_lock.sha")
        cur = hashlib.sha256(open(lock_src, "rb").read()).hexdigest()
        if not os.path.exists(lock_dst) or not os.path.exists(stamp) or open(stamp).read() != cur:
            with open(lock_src, "rb") as f, open(lock_dst, "wb") as g:
                g.write(f.read())
            with open(stamp, "w") as f:
                f.write(cur)
    except OSError:
        pass
    cmd = ["cargo", "build", "--offline"] + (["--release"] if release else [])
    rc, out, err, dt = run(cmd, cwd=HARNESS, env=env_offline(), timeout=2400)
    return rc == 0, (out + err)[-4000:]


# ----------------------------------------------------------------------------- running cases
def _run_lines(binary, lines, shards=16, timeout=1500, unlimited_stack=False):
    """lines: list of str. Shards over processes; returns dict id -> result string."""
    if not lines:
        return {}, []
    shards = max(1, min(shards, len(lines)))
    chunks = [lines[i::shards] for i in range(shards)]
    procs = []
    for ch in chunks:
        if unlimited_stack:
            cmd = ["bash", "-c", "ulimit -s unlimited 2>/dev/null || ulimit -s 1000000 2>/dev/null; exec " + binary]
        else:
            cmd = [binary]
        p = subprocess.Popen(cmd, stdin=subprocess.PIPE, stdout=subprocess.PIPE, stderr=subprocess.PIPE, text=True)
        procs.append((p, ch))
    import threading
    res = {}
    errs = []

    def work(p, ch):
        try:
            out, err = p.communicate("\n".join(ch) + "\n", timeout=timeout)
        except subprocess.TimeoutExpired:
            p.kill()
            out, err = p.communicate()
            errs.append("timeout")
        for ln in out.splitlines():
            sp = ln.split(" ", 1)
            if sp and sp[0]:
                res[sp[0]] = sp[1].strip() if len(sp) > 1 else ""
        if p.returncode not in (0, None):
            errs.append("exit %s: %s" % (p.returncode, (err or "")[-300:]))

    ths = [threading.Thread(target=work, args=pc) for pc in procs]
    for t in ths:
        t.start()
    for t in ths:
        t.join()
    return res, errs


def run_impl(lines, release=False, shards=16, timeout=1500):
    return _run_lines(HARNESS_BIN_REL if release else HARNESS_BIN, lines, shards, timeout)


def run_model(lines, shards=16, timeout=1500):
    return _run_lines(MODEL_BIN, lines, shards, timeout, unlimited_stack=True)


# ----------------------------------------------------------------------------- hygiene / audit
FORBIDDEN = re.compile(r"\b(Admitted|admit|Axiom|Axioms|Parameter|Parameters|Conjecture|Conjectures|Unset\s+Guard|bypass_check|Admit\s+Obligations|type-in-type|impredicative-set|Unset\s+Universe|Unset\s+Positivity)\b")


def strip_coq_comments(s):
    out, depth, i = [], 0, 0
    while i < len(s):
        if s.startswith("(*", i):
            depth += 1
            i += 2
        elif s.startswith("*)", i) and depth > 0:
            depth -= 1
            i += 2
        else:
            if depth == 0:
                out.append(s[i])
            i += 1
    return "".join(out)


def hygiene():
    """grep the whole development; returns list of problems"""
    bad = []
    for f in glob.glob(os.path.join(COQ, "**", "*.v"), recursive=True):
        txt = strip_coq_comments(open(f).read())
        for m in FORBIDDEN.finditer(txt):
            bad.append("%s: forbidden '%s'" % (os.path.relpath(f, VERIF), m.group(0)))
        # Variable/Hypothesis outside a section
        depth = 0
        for ln in txt.splitlines():
            s = ln.strip()
            if re.match(r"Section\s+\w+", s):
                depth += 1
            elif re.match(r"End\s+\w+", s) and depth > 0:
                depth -= 1
            elif re.match(r"(Variable|Variables|Hypothesis|Hypotheses|Context)\b", s) and depth == 0:
                bad.append("%s: '%s' outside a section" % (os.path.relpath(f, VERIF), s[:40]))
    cp = open(os.path.join(COQ, "_CoqProject")).read()
    for flag in ("-type-in-type", "-impredicative-set", "-vos", "-noinit"):
        if flag in cp:
            bad.append("_CoqProject: forbidden flag " + flag)
    return bad


def theorem_names(prop):
    txt = strip_coq_comments(open(os.path.join(COQ, "Props", prop + ".v")).read())
    return re.findall(r"^\s*(?:Theorem|Corollary)\s+(\w+)", txt, re.M)


def audit(prop):
    """coqc a generated file: Print Assumptions for every pinned theorem of Props/<prop>.v.
    Returns (names, problems)"""
    names = theorem_names(prop)
    d = os.path.join(CACHE, "audit")
    os.makedirs(d, exist_ok=True)
    f = os.path.join(d, prop + "_audit.v")
    with open(f, "w") as g:
        g.write("From AnyTLS Require Import %s.\n" % prop)
        for n in names:
            g.write('Print Assumptions %s.\n' % n)
    args = []
    for ln in open(os.path.join(COQ, "_CoqProject")):
        ln = ln.strip()
        if ln.startswith("-Q"):
            _, p, l = ln.split()
            args += ["-Q", os.path.join(COQ, p), l]
    rc, out, err, _ = run(["coqc", "-noglob"] + args + [f], cwd=d, timeout=600)
    problems = []
    if rc != 0:
        problems.append("audit of %s failed: %s" % (prop, (err or out)[-500:]))
        return names, problems
    blocks = out.split("Closed under the global context")
    n_closed = len(blocks) - 1
    if n_closed != len(names):
        # some theorem depends on axioms: list them
        ax = re.findall(r"^(\S+)\s*:", out, re.M)
        ax = [a for a in ax if a not in ALLOWED_AXIOMS]
        problems.append("%s: %d of %d theorems closed; assumptions found: %s" % (prop, n_closed, len(names), ", ".join(sorted(set(ax)))[:400]))
    return names, problems


# ----------------------------------------------------------------------------- known findings
def known_findings():
    try:
        return json.load(open(os.path.join(VERIF, "known_findings.json")))
    except OSError:
        return {"findings": [], "fixed": []}


# ----------------------------------------------------------------------------- evidence / verdict
def write_json(path, obj):
    os.makedirs(os.path.dirname(path), exist_ok=True)
    tmp = path + ".tmp"
    with open(tmp, "w") as f:
        json.dump(obj, f, indent=1, sort_keys=True)
        f.write("\n")
    os.replace(tmp, path)


def short(s, n=300):
    s = str(s)
    return s if len(s) <= n else s[:n] + "...(%d chars)" % len(s)
